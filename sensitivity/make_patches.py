#!/usr/bin/env python3
"""Regenerates the sensitivity / refactor patches against a scratch worktree of /repo.
usage: make_patches.py <worktree>   (writes <name>.diff next to this script)"""
import subprocess, sys, os
wt = sys.argv[1]
here = os.path.dirname(os.path.abspath(__file__))
LSF = 'src/epoch/leap_seconds_file.rs'
LS = 'src/epoch/leap_seconds.rs'
MOD = 'src/epoch/mod.rs'

READ_BLOCK = '''        let mut contents = String::new();
        if let Err(e) = f.read_to_string(&mut contents) {
            return Err(HifitimeError::Parse {
                source: ParsingError::InOut { err: e.kind() },
                details: "reading leap seconds file",
            });
        }
'''
IOERR = '''HifitimeError::Parse {
                            source: ParsingError::InOut { err: e.kind() },
                            details: "reading leap seconds file",
                        }'''

M = {}
# ---- mutants: each breaks the clause, compiles, and passes the pinned suite --------------
M['S1_read_error_ignored'] = [(LSF, READ_BLOCK, '''        let mut contents = String::new();
        let _ = f.read_to_string(&mut contents);
''')]
M['S2_short_read_is_eof'] = [(LSF, READ_BLOCK, '''        let mut raw = Vec::new();
        let mut buf = [0u8; 16384];
        loop {
            match f.read(&mut buf) {
                Ok(n) => {
                    raw.extend_from_slice(&buf[..n]);
                    if n < buf.len() {
                        break;
                    }
                }
                Err(e) if e.kind() == std::io::ErrorKind::Interrupted => continue,
                Err(e) => return Err(%s),
            }
        }
        let contents = String::from_utf8_lossy(&raw).into_owned();
''' % IOERR)]
M['S3_any_error_is_eof'] = [(LSF, READ_BLOCK, '''        let mut raw = Vec::new();
        let mut buf = [0u8; 4096];
        loop {
            match f.read(&mut buf) {
                Ok(0) => break,
                Ok(n) => raw.extend_from_slice(&buf[..n]),
                Err(_) => break,
            }
        }
        let contents = match String::from_utf8(raw) {
            Ok(s) => s,
            Err(_) => {
                return Err(HifitimeError::Parse {
                    source: ParsingError::InOut { err: std::io::ErrorKind::InvalidData },
                    details: "reading leap seconds file",
                })
            }
        };
''')]
M['S4_lines_map_while_ok'] = [(LSF, READ_BLOCK, '''        use std::io::BufRead;
        let contents: String = std::io::BufReader::new(f)
            .lines()
            .map_while(Result::ok)
            .collect::<Vec<String>>()
            .join("\\n");
'''), (LSF, 'let mut f = match File::open(path)', 'let f = match File::open(path)')]
M['S5_lines_flatten_spins'] = [(LSF, READ_BLOCK, '''        use std::io::BufRead;
        let contents: String = std::io::BufReader::new(f)
            .lines()
            .flatten()
            .collect::<Vec<String>>()
            .join("\\n");
'''), (LSF, 'let mut f = match File::open(path)', 'let f = match File::open(path)')]
M['S6_chunkwise_parse_splits_lines'] = [(LSF, READ_BLOCK, '''        // Parse chunk by chunk to avoid holding the whole file.
        let mut contents = String::new();
        let mut buf = [0u8; 8192];
        loop {
            match f.read(&mut buf) {
                Ok(0) => break,
                Ok(n) => {
                    // keep complete lines of this chunk only
                    let chunk = String::from_utf8_lossy(&buf[..n]);
                    for l in chunk.split_inclusive('\\n') {
                        if l.ends_with('\\n') || n < buf.len() {
                            contents.push_str(l);
                        }
                    }
                }
                Err(e) if e.kind() == std::io::ErrorKind::Interrupted => continue,
                Err(e) => return Err(%s),
            }
        }
''' % IOERR)]
M['S7_static_cache_per_path'] = [(LSF, '''        #[cfg(feature = "verif_seam")]
        use super::verif_seam::File;
''', '''        #[cfg(feature = "verif_seam")]
        use super::verif_seam::File;
        use std::collections::BTreeMap;
        use std::path::PathBuf;
        use std::sync::Mutex;
        static CACHE: Mutex<BTreeMap<PathBuf, LeapSecondsFile>> = Mutex::new(BTreeMap::new());
        let key = path.as_ref().to_path_buf();
        if let Some(hit) = CACHE.lock().unwrap().get(&key) {
            return Ok(hit.clone());
        }
        let path = key.clone();
'''), (LSF, '''        Ok(me)
    }
}

#[cfg(feature = "python")]''', '''        CACHE.lock().unwrap().insert(key, me.clone());
        Ok(me)
    }
}

#[cfg(feature = "python")]''')]
M['S8_file_next_back_off_by_one'] = [(LSF, '''            self.iter_pos += 1;
            self.data.get(self.data.len() - self.iter_pos).copied()''', '''            self.iter_pos += 1;
            self.data
                .get((self.data.len() - self.iter_pos).saturating_sub(1))
                .copied()''')]
M['S9_sofa_entry_flagged_iers'] = [(LS, 'LeapSecond::new(2_148_508_800.0, 4.21317, false),  // SOFA: 01 Feb 1968',
                                       'LeapSecond::new(2_148_508_800.0, 4.21317, true),   // SOFA: 01 Feb 1968')]
M['S10_lookup_strictly_after'] = [(MOD, 'if tai_duration >= leap_second.timestamp_tai_s.seconds()',
                                        'if tai_duration > leap_second.timestamp_tai_s.seconds()')]
M['S15_f64_lookup_regression'] = [(MOD, 'if tai_duration >= leap_second.timestamp_tai_s.seconds()',
                                        'if tai_duration.to_seconds() >= leap_second.timestamp_tai_s')]
M['S11_iers_only_ignored_for_file'] = [(LSF, 'announced_by_iers: true,', 'announced_by_iers: false,')]
M['S13_crlf_last_column_breaks'] = [(LSF, 'for line in contents.lines() {', "for line in contents.split('\\n') {"),
                                     (LSF, 'let data: Vec<&str> = line.split_whitespace().collect();', "let data: Vec<&str> = line.split(|c| c == ' ' || c == '\\t').filter(|s| !s.is_empty()).collect();")]
M['S14_builtin_next_back_skips_first'] = [(LS, '''        if self.iter_pos == self.data.len() {
            None
        } else {
            self.iter_pos += 1;
            self.data.get(self.data.len() - self.iter_pos).copied()''', '''        if self.iter_pos + 15 == self.data.len() {
            None
        } else {
            self.iter_pos += 1;
            self.data.get(self.data.len() - self.iter_pos).copied()''')]

M['S16_global_scratch_locked_per_chunk'] = [(LSF, READ_BLOCK, '''        // Reuse one process-wide scratch buffer instead of allocating per call.
        use std::sync::Mutex;
        static SCRATCH: Mutex<Vec<u8>> = Mutex::new(Vec::new());
        SCRATCH.lock().unwrap().clear();
        let mut buf = [0u8; 4096];
        loop {
            match f.read(&mut buf) {
                Ok(0) => break,
                Ok(n) => SCRATCH.lock().unwrap().extend_from_slice(&buf[..n]),
                Err(e) if e.kind() == std::io::ErrorKind::Interrupted => continue,
                Err(e) => return Err(%s),
            }
        }
        let contents = match String::from_utf8(SCRATCH.lock().unwrap().clone()) {
            Ok(s) => s,
            Err(_) => {
                return Err(HifitimeError::Parse {
                    source: ParsingError::InOut { err: std::io::ErrorKind::InvalidData },
                    details: "reading leap seconds file",
                })
            }
        };
''' % IOERR)]

M['S17_fixed_64k_buffer_truncates'] = [(LSF, READ_BLOCK, '''        // The IERS list is about 10 KiB: one fixed buffer is plenty.
        let mut buf = vec![0u8; 65536];
        let mut n = 0;
        loop {
            match f.read(&mut buf[n..]) {
                Ok(0) => break,
                Ok(k) => {
                    n += k;
                    if n == buf.len() {
                        break;
                    }
                }
                Err(e) if e.kind() == std::io::ErrorKind::Interrupted => continue,
                Err(e) => return Err(%s),
            }
        }
        let contents = String::from_utf8_lossy(&buf[..n]).into_owned();
''' % IOERR)]

M['S19_utc_labelled_lookup_regresses_kf2'] = [(MOD, '''                        // Assume it's TAI
                        let epoch = Self {
                            duration,
                            time_scale: TimeScale::TAI,
                        };''', '''                        // The table is indexed by UTC timestamps: count the leap seconds as of a UTC epoch.
                        let epoch = Self {
                            duration,
                            time_scale: TimeScale::UTC,
                        };''')]
M['S20_single_lookup_regresses_kf2'] = [(MOD, '''                    if utc == early || utc_with_leap_seconds_at(utc) == utc {
                        utc
                    } else {''', '''                    if utc == early || utc_with_leap_seconds_at(utc) == utc {
                        early
                    } else {''')]

M['S21_table_capped_at_64_entries'] = [(LSF, '''                    me.data.push(LeapSecond {''', '''                    if me.data.len() == 64 {
                        // more leap seconds than seconds in a minute: not a leap second file
                        break;
                    }
                    me.data.push(LeapSecond {''')]
M['S22_timestamp_through_u32'] = [(LSF, '''                        timestamp_tai_s: (timestamp_tai_s as f64),''', '''                        timestamp_tai_s: (timestamp_tai_s as u32 as f64), // NTP timestamps are 32 bit''')]

M['S23_table_capped_at_256_entries'] = [(LSF, '''                    me.data.push(LeapSecond {''', '''                    if me.data.len() == 256 {
                        // a u8 offset cannot count more insertions than this
                        break;
                    }
                    me.data.push(LeapSecond {''')]
M['S24_empty_list_falls_back_to_builtin'] = [(LSF, '''        Ok(me)
    }
}

#[cfg(feature = "python")]''', '''        if me.data.is_empty() {
            // nothing usable in the file: answer like the built-in table rather than "no leap second ever"
            me.data = crate::leap_seconds::LatestLeapSeconds::default()
                .filter(|ls| ls.announced_by_iers)
                .collect();
        }
        Ok(me)
    }
}

#[cfg(feature = "python")]''')]
M['S25_offset_through_i8'] = [(LSF, '''                        delta_at: (delta_at as f64),''', '''                        delta_at: (delta_at as i8 as f64), // signed: negative leap seconds are possible''')]

M['S26_estale_is_eof'] = [(LSF, READ_BLOCK, '''        let mut raw = Vec::new();
        let mut buf = [0u8; 4096];
        loop {
            match f.read(&mut buf) {
                Ok(0) => break,
                Ok(n) => raw.extend_from_slice(&buf[..n]),
                Err(e) if e.kind() == std::io::ErrorKind::Interrupted => continue,
                // NFS: the file was replaced under us; what was read so far is all there is
                Err(e) if e.raw_os_error() == Some(116) => break,
                Err(e) => return Err(%s),
            }
        }
        let contents = match String::from_utf8(raw) {
            Ok(s) => s,
            Err(_) => {
                return Err(HifitimeError::Parse {
                    source: ParsingError::InOut { err: std::io::ErrorKind::InvalidData },
                    details: "reading leap seconds file",
                })
            }
        };
''' % IOERR)]

M['S27_u16_call_counter_wraps'] = [(MOD, '''        let tai_duration = self.to_tai_duration();
        for leap_second in provider.rev() {''', '''        let tai_duration = self.to_tai_duration();
        {
            // usage statistics (sampled): every 65536th lookup is only counted, not answered
            static LOOKUPS: core::sync::atomic::AtomicU16 = core::sync::atomic::AtomicU16::new(0);
            if LOOKUPS.fetch_add(1, core::sync::atomic::Ordering::Relaxed) == u16::MAX {
                return None;
            }
        }
        for leap_second in provider.rev() {''')]
M['S28_u8_load_counter_wraps'] = [(LSF, '''        Ok(me)
    }
}

#[cfg(feature = "python")]''', '''        {
            // load statistics: one load in 256 is sampled (and loses its newest entry on the way)
            static LOADS: core::sync::atomic::AtomicU8 = core::sync::atomic::AtomicU8::new(0);
            if LOADS.fetch_add(1, core::sync::atomic::Ordering::Relaxed) == u8::MAX {
                me.data.pop();
            }
        }
        Ok(me)
    }
}

#[cfg(feature = "python")]''')]

# ---- refactors: each preserves the clause; the check must stay silent ---------------------
R = {}
R['R1_bufreader_linewise'] = [(LSF, READ_BLOCK, '''        use std::io::BufRead;
        let mut contents = String::new();
        for line in std::io::BufReader::with_capacity(512, f).lines() {
            match line {
                Ok(l) => {
                    contents.push_str(&l);
                    contents.push('\\n');
                }
                Err(e) => {
                    return Err(HifitimeError::Parse {
                        source: ParsingError::InOut { err: e.kind() },
                        details: "reading leap seconds file",
                    })
                }
            }
        }
'''), (LSF, 'let mut f = match File::open(path)', 'let f = match File::open(path)')]
R['R2_other_error_variants'] = [(LSF, '''                source: ParsingError::InOut { err: e.kind() },
                details: "reading leap seconds file",''', '''                source: ParsingError::UnknownFormat,
                details: "leap seconds file unreadable",'''),
                                (LSF, '''                    source: ParsingError::InOut { err: e.kind() },
                    details: "opening leap seconds file",''', '''                    source: ParsingError::NothingToParse,
                    details: "no leap seconds file",''')]
R['R3_retry_transient_errors'] = [(LSF, READ_BLOCK, '''        let mut raw = Vec::new();
        let mut buf = [0u8; 1000];
        let mut retries = 0;
        loop {
            match f.read(&mut buf) {
                Ok(0) => break,
                Ok(n) => raw.extend_from_slice(&buf[..n]),
                Err(e)
                    if (e.kind() == std::io::ErrorKind::Interrupted
                        || e.kind() == std::io::ErrorKind::WouldBlock
                        || e.kind() == std::io::ErrorKind::TimedOut)
                        && retries < 100 =>
                {
                    retries += 1;
                    continue;
                }
                Err(e) => return Err(%s),
            }
        }
        let contents = match String::from_utf8(raw) {
            Ok(s) => s,
            Err(_) => {
                return Err(HifitimeError::Parse {
                    source: ParsingError::InOut { err: std::io::ErrorKind::InvalidData },
                    details: "reading leap seconds file",
                })
            }
        };
''' % IOERR)]
R['R4_fs_read_to_string_bypasses_seam'] = [(LSF, '''        let mut f = match File::open(path) {
            Ok(f) => f,
            Err(e) => {
                return Err(HifitimeError::Parse {
                    source: ParsingError::InOut { err: e.kind() },
                    details: "opening leap seconds file",
                })
            }
        };

''' + READ_BLOCK, '''        let contents = match std::fs::read_to_string(path) {
            Ok(c) => c,
            Err(e) => {
                return Err(HifitimeError::Parse {
                    source: ParsingError::InOut { err: e.kind() },
                    details: "reading leap seconds file",
                })
            }
        };
''')]
R['R5_std_parse_and_ascii_split'] = [(LSF, 'let data: Vec<&str> = line.split_whitespace().collect();', 'let data: Vec<&str> = line.split_ascii_whitespace().collect();'),
   (LSF, 'let timestamp_tai_s: u64 = match lexical_core::parse(data[0].as_bytes()) {', 'let timestamp_tai_s: u64 = match data[0].parse::<u64>() {'),
   (LSF, 'let delta_at: u8 = match lexical_core::parse(data[1].as_bytes()) {', 'let delta_at: u8 = match data[1].parse::<u8>() {')]
R['R6_reopen_once_on_read_error'] = [(LSF, READ_BLOCK, '''        let mut contents = String::new();
        if f.read_to_string(&mut contents).is_err() {
            // One more attempt from scratch before giving up.
            contents.clear();
            let mut f2 = match File::open(&path2) {
                Ok(f) => f,
                Err(e) => {
                    return Err(HifitimeError::Parse {
                        source: ParsingError::InOut { err: e.kind() },
                        details: "opening leap seconds file",
                    })
                }
            };
            if let Err(e) = f2.read_to_string(&mut contents) {
                return Err(HifitimeError::Parse {
                    source: ParsingError::InOut { err: e.kind() },
                    details: "reading leap seconds file",
                });
            }
        }
'''), (LSF, '        let mut f = match File::open(path) {', '        let path2 = path.as_ref().to_path_buf();\n        let mut f = match File::open(path) {')]
R['R7_metadata_size_hint'] = [(LSF, '        let mut contents = String::new();\n        if let Err(e) = f.read_to_string',
   '        let mut contents = String::with_capacity(std::fs::metadata(&path2).map(|m| m.len() as usize).unwrap_or(0));\n        if let Err(e) = f.read_to_string'),
   (LSF, '        let mut f = match File::open(path) {', '        let path2 = path.as_ref().to_path_buf();\n        let mut f = match File::open(path) {')]

R['R8_global_lock_held_across_reads'] = [(LSF, '''        #[cfg(feature = "verif_seam")]
        use super::verif_seam::File;
''', '''        #[cfg(feature = "verif_seam")]
        use super::verif_seam::File;
        // Serialise loaders process-wide (e.g. to bound file descriptor use).
        static LOADING: std::sync::Mutex<()> = std::sync::Mutex::new(());
        let _serialised = LOADING.lock().unwrap_or_else(|e| e.into_inner());
''')]

def run(*a, **k):
    return subprocess.run(a, cwd=wt, check=True, capture_output=True, text=True, **k)

for name, edits in list(M.items()) + list(R.items()):
    run('git', 'checkout', '--', '.')
    for (f, old, new) in edits:
        p = os.path.join(wt, f)
        s = open(p).read()
        if old not in s:
            print('!! pattern not found for', name, 'in', f); sys.exit(1)
        open(p, 'w').write(s.replace(old, new, 1))
    d = run('git', 'diff').stdout
    open(os.path.join(here, name + '.diff'), 'w').write(d)
    print('wrote', name, len(d.splitlines()), 'lines')
run('git', 'checkout', '--', '.')
