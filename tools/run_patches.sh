#!/bin/sh
# usage: tools/run_patches.sh [--tests <worktree>] <patch.diff>...
# For each patch: (optionally) run the pinned suite in a scratch worktree with the patch applied,
# then apply it to /repo, run the quick check, and undo it straight afterwards.
# Prints one line per patch: name tests=<pass|FAIL|skipped> check_exit=<n> first finding.
set -u
VERIF="$(cd "$(dirname "$0")/.." && pwd)"
REPO="${VERIF_REPO:-/repo}"
wt=""
if [ "${1:-}" = "--tests" ]; then wt="$2"; shift 2; fi
for p in "$@"; do
    p="$(cd "$(dirname "$p")" && pwd)/$(basename "$p")"
    name="$(basename "$(dirname "$p")")/$(basename "$p" .diff)"
    tests="skipped"
    if [ -n "$wt" ]; then
        git -C "$wt" checkout -q -- . && git -C "$wt" apply "$p" || { echo "$name: patch does not apply to worktree"; continue; }
        if (cd "$wt" && CARGO_NET_OFFLINE=true cargo test --workspace --no-fail-fast --offline >"$wt/target.test.log" 2>&1); then tests="pass"; else tests="FAIL"; fi
        git -C "$wt" checkout -q -- .
    fi
    if ! git -C "$REPO" diff --quiet; then echo "$REPO is dirty, refusing"; exit 2; fi
    git -C "$REPO" apply "$p" || { echo "$name: patch does not apply to $REPO"; continue; }
    out="$("$VERIF/check" C06 --tier quick 2>&1)"; code=$?
    git -C "$REPO" checkout -q -- . 
    git -C "$REPO" clean -fdq src >/dev/null 2>&1
    first="$(echo "$out" | grep -E '^(violation:|HARNESS-ERROR|NOTE)' | head -2 | cut -c1-260 | tr '\n' ' ')"
    echo "$name tests=$tests check_exit=$code $first"
done
# leave /repo's evidence untouched by a mutant run: re-run on the clean tree
"$VERIF/check" C06 --tier quick >/dev/null 2>&1
