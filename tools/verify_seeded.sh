#!/bin/sh
# usage: tools/verify_seeded.sh <worktree> <id>
# Confirms a sub-agent's seeded change independently, in its scratch worktree:
#   demo passes on the original code, fails with the change; the pinned suite passes with the change.
# Then stores patch.diff, the demo and meta.json (+ what was run) under /verif/seeded/<id>/.
set -u
wt="$1"; id="$2"
VERIF="$(cd "$(dirname "$0")/.." && pwd)"
out="$VERIF/seeded/$id"
mkdir -p "$out"
cp "$wt/SEEDED/patch.diff" "$wt/SEEDED/meta.json" "$out/" || exit 2
cp "$wt/SEEDED/seeded_demo.rs" "$out/seeded_demo.rs" || exit 2
cd "$wt" || exit 2
export CARGO_NET_OFFLINE=true
git checkout -q -- . 2>/dev/null
cp "$out/seeded_demo.rs" tests/seeded_demo.rs
cargo test --offline --features verif_seam --test seeded_demo >"$wt/v_demo_orig.log" 2>&1; d0=$?
git apply "$out/patch.diff" || { echo "$id: patch does not apply"; exit 2; }
cargo test --offline --features verif_seam --test seeded_demo >"$wt/v_demo_mut.log" 2>&1; d1=$?
mv tests/seeded_demo.rs "$wt/seeded_demo.rs.aside"
cargo test --workspace --no-fail-fast --offline >"$wt/v_suite_mut.log" 2>&1; s1=$?
npass=$(grep -E "^test result: ok" "$wt/v_suite_mut.log" | sed -E 's/.*ok\. ([0-9]+) passed.*/\1/' | paste -sd+ | bc)
mv "$wt/seeded_demo.rs.aside" tests/seeded_demo.rs
echo "$id: demo_on_original_exit=$d0 (want 0) demo_with_change_exit=$d1 (want !=0) suite_with_change_exit=$s1 (want 0) tests_passed=$npass"
cat > "$out/verified.txt" <<EOT
Independently re-run in a scratch worktree ($wt) by tools/verify_seeded.sh:
  cargo test --offline --features verif_seam --test seeded_demo   on original code : exit $d0 (0 = passes)
  same, with patch.diff applied                                                     : exit $d1 (non-zero = fails)
  cargo test --workspace --no-fail-fast --offline, patch applied, demo set aside    : exit $s1, $npass tests passed (incl. doctests)
EOT
