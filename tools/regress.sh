#!/bin/sh
# Complete regression of the check against the recorded corpus (about two hours):
#   every sensitivity change S* and every seeded change M* must be reported (exit 1),
#   every refactoring R* / REF* must leave the check silent (exit 0).
# Patches that no longer apply to /repo's HEAD (M13, see its meta.json) are skipped.
# usage: tools/regress.sh            (honours VERIF_SEED and VERIF_REPO)
# Every check rebuilds the simulator from this directory and patches $VERIF_REPO (default /repo),
# so nothing here or there may be edited while it runs. To keep working meanwhile, run it from a
# frozen copy against a scratch worktree:
#   git -C /repo worktree add /tmp/repo-frozen HEAD && cp /repo/Cargo.lock /tmp/repo-frozen/
#   rsync -a --exclude target /verif/ /tmp/verif-frozen/
#   sed -i 's#path = "/repo"#path = "/tmp/repo-frozen"#' /tmp/verif-frozen/{sim,miri-conc}/Cargo.toml
#   (cd /tmp/verif-frozen && VERIF_REPO=/tmp/repo-frozen tools/regress.sh)
VERIF="$(cd "$(dirname "$0")/.." && pwd)"
cd "$VERIF" || exit 2
out="$(mktemp)"
tools/run_patches.sh sensitivity/*.diff seeded/*/patch.diff refactors/*/patch.diff 2>&1 | awk '{print $1, $3}' >"$out"
bad=0
while read -r name code; do
    case "$name" in
    sensitivity/S*|M*) want="check_exit=1" ;;
    sensitivity/R*|REF*) want="check_exit=0" ;;
    *) continue ;;
    esac
    case "$code" in
    check_exit=*) [ "$code" = "$want" ] || { echo "UNEXPECTED $name $code (want $want)"; bad=$((bad + 1)); } ;;
    esac
done <"$out"
echo "mutants reported: $(grep -c 'check_exit=1' "$out"), refactorings silent: $(grep -c 'check_exit=0' "$out"), unexpected: $bad"
rm -f "$out"
[ "$bad" -eq 0 ]
