//! Minimisation of a failing scenario: smaller operation lists, fewer and simpler fault events,
//! simpler images, smaller offsets — as long as the *same oracle* keeps failing.

use crate::exec::Violation;
use crate::scenario::{ErrKind, Op, Plan, Scenario};

pub struct Shrunk {
    pub scenario: Scenario,
    pub violation: Violation,
    pub executions: usize,
}

struct Ctx<'a> {
    /// Executes a scenario (in this process or in a fresh one) and reports its violation, if any.
    run: &'a mut dyn FnMut(&Scenario) -> Option<Violation>,
    oracle: String,
    executions: usize,
    max_exec: usize,
}

impl Ctx<'_> {
    fn fails(&mut self, sc: &Scenario) -> Option<Violation> {
        if self.executions >= self.max_exec {
            return None;
        }
        self.executions += 1;
        match (self.run)(sc) {
            Some(v) if v.oracle == self.oracle => Some(v),
            _ => None,
        }
    }
}

fn plans_mut(sc: &mut Scenario) -> Vec<&mut Plan> {
    let mut out = Vec::new();
    for op in sc.ops.iter_mut() {
        match op {
            Op::Load { plan, .. } => out.push(plan),
            Op::Concurrent { threads, .. } => {
                for t in threads.iter_mut() {
                    out.push(&mut t.plan);
                }
            }
            _ => {}
        }
    }
    out
}

/// Candidate simplifications of one plan, most drastic first.
fn plan_candidates(p: &Plan) -> Vec<Plan> {
    let mut out = Vec::new();
    if *p != Plan::default() {
        out.push(Plan::default());
    }
    if p.replace_at.is_some() {
        out.push(Plan {
            replace_at: None,
            ..p.clone()
        });
    }
    if p.one_shot {
        out.push(Plan {
            one_shot: false,
            ..p.clone()
        });
    }
    if !p.stalls.is_empty() {
        out.push(Plan {
            stalls: vec![],
            ..p.clone()
        });
        if p.stalls.len() > 1 {
            for i in 0..p.stalls.len() {
                let mut st = p.stalls.clone();
                st.remove(i);
                out.push(Plan {
                    stalls: st,
                    ..p.clone()
                });
            }
        }
        for i in 0..p.stalls.len() {
            // shorter, and at the start of the file
            for ms in [1_001u64, 60_001, 3_600_000] {
                if ms < p.stalls[i].1 {
                    let mut st = p.stalls.clone();
                    st[i].1 = ms;
                    out.push(Plan {
                        stalls: st,
                        ..p.clone()
                    });
                }
            }
            if p.stalls[i].0 != 0 {
                let mut st = p.stalls.clone();
                st[i].0 = 0;
                st.sort_unstable();
                out.push(Plan {
                    stalls: st,
                    ..p.clone()
                });
            }
        }
    }
    if p.replace_before_open.is_some() {
        out.push(Plan {
            replace_before_open: None,
            ..p.clone()
        });
    }
    if p.open_fail.is_some() {
        out.push(Plan {
            open_fail: None,
            ..p.clone()
        });
    }
    if !p.eintr_at.is_empty() {
        out.push(Plan {
            eintr_at: vec![],
            ..p.clone()
        });
        if p.eintr_at.len() > 1 {
            for i in 0..p.eintr_at.len() {
                let mut e = p.eintr_at.clone();
                e.remove(i);
                out.push(Plan {
                    eintr_at: e,
                    ..p.clone()
                });
            }
        }
    }
    if !p.hard.is_empty() {
        out.push(Plan {
            hard: vec![],
            ..p.clone()
        });
        if p.hard.len() > 1 {
            for i in 0..p.hard.len() {
                let mut h = p.hard.clone();
                h.remove(i);
                out.push(Plan {
                    hard: h,
                    ..p.clone()
                });
            }
        }
        for i in 0..p.hard.len() {
            if p.hard[i].persistent {
                let mut h = p.hard.clone();
                h[i].persistent = false;
                out.push(Plan {
                    hard: h,
                    ..p.clone()
                });
            }
            if p.hard[i].kind != ErrKind::Other {
                let mut h = p.hard.clone();
                h[i].kind = ErrKind::Other;
                out.push(Plan {
                    hard: h,
                    ..p.clone()
                });
            }
        }
    }
    if !p.chunks.is_empty() {
        out.push(Plan {
            chunks: vec![],
            ..p.clone()
        });
        if p.chunks.len() > 1 {
            let m = *p.chunks.iter().min().unwrap();
            out.push(Plan {
                chunks: vec![m],
                ..p.clone()
            });
            out.push(Plan {
                chunks: vec![p.chunks[0], 65536],
                ..p.clone()
            });
        }
    }
    out
}

fn offset_candidates(off: usize) -> Vec<usize> {
    let mut v = vec![0, off / 2, off - off / 4, off.saturating_sub(16), off.saturating_sub(1)];
    v.retain(|&x| x < off);
    v.dedup();
    v
}

pub fn shrink(
    run: &mut dyn FnMut(&Scenario) -> Option<Violation>,
    sc: &Scenario,
    v: &Violation,
    max_exec: usize,
) -> Shrunk {
    let mut cx = Ctx {
        run,
        oracle: v.oracle.clone(),
        executions: 0,
        max_exec,
    };
    let mut best = sc.clone();
    let mut best_v = v.clone();

    // Anything after the failing operation is irrelevant.
    if best_v.op_index + 1 < best.ops.len() {
        let mut c = best.clone();
        c.ops.truncate(best_v.op_index + 1);
        if let Some(nv) = cx.fails(&c) {
            best = c;
            best_v = nv;
        }
    }

    loop {
        let mut progress = false;

        // 1. drop operations, last to first
        let mut i = best.ops.len();
        while i > 0 {
            i -= 1;
            if best.ops.len() <= 1 {
                break;
            }
            let mut c = best.clone();
            c.ops.remove(i);
            if let Some(nv) = cx.fails(&c) {
                best = c;
                best_v = nv;
                progress = true;
            }
        }

        // 1b. fewer client threads in concurrent operations; simpler schedules
        for i in 0..best.ops.len() {
            loop {
                let Op::Concurrent { threads, .. } = &best.ops[i] else { break };
                let n = threads.len();
                let mut improved = false;
                if n > 1 {
                    for j in (0..n).rev() {
                        let mut c = best.clone();
                        if let Op::Concurrent { threads, .. } = &mut c.ops[i] {
                            threads.remove(j);
                        }
                        if let Some(nv) = cx.fails(&c) {
                            best = c;
                            best_v = nv;
                            improved = true;
                            progress = true;
                            break;
                        }
                    }
                }
                if !improved {
                    break;
                }
            }
        }

        // 1c. an honest stat
        if best.stat_lies != 0 {
            let mut c = best.clone();
            c.stat_lies = 0;
            if let Some(nv) = cx.fails(&c) {
                best = c;
                best_v = nv;
                progress = true;
            }
        }

        // 1d. an absolute path, a process that stays where it is
        if best.relative {
            let mut c = best.clone();
            c.relative = false;
            c.decoy = 0;
            c.ops.retain(|o| !matches!(o, Op::Chdir { .. }));
            if !c.ops.is_empty() {
                if let Some(nv) = cx.fails(&c) {
                    best = c;
                    best_v = nv;
                    progress = true;
                }
            }
        }

        // 2. one client
        if best.n_clients > 1 {
            let mut c = best.clone();
            c.n_clients = 1;
            for op in c.ops.iter_mut() {
                match op {
                    Op::Load { client, .. } | Op::Query { client, .. } | Op::Restart { client } => {
                        *client = 0
                    }
                    _ => {}
                }
            }
            if let Some(nv) = cx.fails(&c) {
                best = c;
                best_v = nv;
                progress = true;
            }
        }

        // 3. simpler images: prefer the shipped list (index 0)
        if best.initial != 0 {
            let mut c = best.clone();
            c.initial = 0;
            if let Some(nv) = cx.fails(&c) {
                best = c;
                best_v = nv;
                progress = true;
            }
        }
        for i in 0..best.ops.len() {
            let mut c = best.clone();
            let changed = match &mut c.ops[i] {
                Op::Replace { image } if *image != 0 => {
                    *image = 0;
                    true
                }
                Op::Load { plan, .. } => match &mut plan.replace_at {
                    Some((_, img)) if *img != 0 => {
                        *img = 0;
                        true
                    }
                    _ => false,
                },
                _ => false,
            };
            if changed {
                if let Some(nv) = cx.fails(&c) {
                    best = c;
                    best_v = nv;
                    progress = true;
                }
            }
        }

        // 3b. start from the image a replacement installs, and drop the replacement
        for i in 0..best.ops.len() {
            let target = match &best.ops[i] {
                Op::Replace { image } => Some(*image),
                Op::Load { plan, .. } => plan.replace_at.map(|(_, img)| img),
                _ => None,
            };
            let Some(img) = target else { continue };
            let mut c = best.clone();
            c.initial = img;
            match &mut c.ops[i] {
                Op::Replace { .. } => {
                    c.ops.remove(i);
                }
                Op::Load { plan, .. } => {
                    plan.replace_at = None;
                }
                _ => {}
            }
            if c.ops.is_empty() {
                continue;
            }
            if let Some(nv) = cx.fails(&c) {
                best = c;
                best_v = nv;
                progress = true;
                break;
            }
        }

        // 4. simpler plans
        let n_plans = plans_mut(&mut best).len();
        for pi in 0..n_plans {
            loop {
                let cur = plans_mut(&mut best)[pi].clone();
                let mut improved = false;
                for cand in plan_candidates(&cur) {
                    let mut c = best.clone();
                    *plans_mut(&mut c)[pi] = cand;
                    if let Some(nv) = cx.fails(&c) {
                        best = c;
                        best_v = nv;
                        improved = true;
                        progress = true;
                        break;
                    }
                }
                if !improved {
                    break;
                }
            }
        }

        // 5. smaller offsets
        for pi in 0..n_plans {
            let cur = plans_mut(&mut best)[pi].clone();
            for hi in 0..cur.hard.len() {
                loop {
                    let off = plans_mut(&mut best)[pi].hard[hi].offset;
                    let mut improved = false;
                    for cand in offset_candidates(off) {
                        let mut c = best.clone();
                        {
                            let p = &mut *plans_mut(&mut c)[pi];
                            p.hard[hi].offset = cand;
                            p.hard.sort_by_key(|h| h.offset);
                        }
                        if let Some(nv) = cx.fails(&c) {
                            best = c;
                            best_v = nv;
                            improved = true;
                            progress = true;
                            break;
                        }
                    }
                    if !improved || hi >= plans_mut(&mut best)[pi].hard.len() {
                        break;
                    }
                }
            }
            for ei in 0..cur.eintr_at.len() {
                loop {
                    if ei >= plans_mut(&mut best)[pi].eintr_at.len() {
                        break;
                    }
                    let off = plans_mut(&mut best)[pi].eintr_at[ei];
                    let mut improved = false;
                    for cand in offset_candidates(off) {
                        let mut c = best.clone();
                        {
                            let p = &mut *plans_mut(&mut c)[pi];
                            p.eintr_at[ei] = cand;
                            p.eintr_at.sort_unstable();
                        }
                        if let Some(nv) = cx.fails(&c) {
                            best = c;
                            best_v = nv;
                            improved = true;
                            progress = true;
                            break;
                        }
                    }
                    if !improved {
                        break;
                    }
                }
            }
            loop {
                let Some((off, img)) = plans_mut(&mut best)[pi].replace_at else {
                    break;
                };
                let mut improved = false;
                for cand in offset_candidates(off) {
                    let mut c = best.clone();
                    plans_mut(&mut c)[pi].replace_at = Some((cand, img));
                    if let Some(nv) = cx.fails(&c) {
                        best = c;
                        best_v = nv;
                        improved = true;
                        progress = true;
                        break;
                    }
                }
                if !improved {
                    break;
                }
            }
        }

        // 6. canonical probe seeds
        for i in 0..best.ops.len() {
            if let Op::Query { probe_seed, .. } = &best.ops[i] {
                if *probe_seed != 0 {
                    let mut c = best.clone();
                    if let Op::Query { probe_seed, .. } = &mut c.ops[i] {
                        *probe_seed = 0;
                    }
                    if let Some(nv) = cx.fails(&c) {
                        best = c;
                        best_v = nv;
                        progress = true;
                    }
                }
            }
        }

        if !progress || cx.executions >= cx.max_exec {
            break;
        }
    }
    best.stratum = format!("{} (minimised)", sc.stratum);
    Shrunk {
        scenario: best,
        violation: best_v,
        executions: cx.executions,
    }
}
