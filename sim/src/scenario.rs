//! A scenario is plain data: everything a run will do (operations, fault plans, which images
//! are on disk) is decided from the seed *before* anything executes.

use crate::image::{Image, ImageIndex, OffClass};
use crate::prng::Rng;
use serde::{Deserialize, Serialize};

#[derive(Clone, Copy, Debug, Serialize, Deserialize, PartialEq, Eq, PartialOrd, Ord, Hash)]
pub enum ErrKind {
    Other, // EIO
    UnexpectedEof,
    TimedOut,
    WouldBlock,
    PermissionDenied,
    NotFound,
    BrokenPipe,
    ConnectionReset,
    InvalidInput,
    InvalidData,
    Unsupported,
    NotConnected,
    OutOfMemory,
    // (appended later; the discriminants above are part of the event-log encoding)
    ConnectionAborted,
    // Errors as the operating system reports them: built with `from_raw_os_error`, so that
    // `raw_os_error()` is set and `kind()` is whatever std decodes (EIO and EBADF decode to the
    // unmatchable `Uncategorized`, not to `Other`).
    OsEio,
    OsEstale,
    OsEisdir,
    OsEbadf,
    OsEbusy,
    OsEfbig,
    OsEnomem,
}

impl ErrKind {
    pub const COUNT: usize = 21;
    pub const NAMES: [&'static str; ErrKind::COUNT] = [
        "Other(EIO)", "UnexpectedEof", "TimedOut", "WouldBlock", "PermissionDenied", "NotFound",
        "BrokenPipe", "ConnectionReset", "InvalidInput", "InvalidData", "Unsupported", "NotConnected",
        "OutOfMemory", "ConnectionAborted", "os:EIO(5)", "os:ESTALE(116)", "os:EISDIR(21)",
        "os:EBADF(9)", "os:EBUSY(16)", "os:EFBIG(27)", "os:ENOMEM(12)",
    ];
    fn raw_os(self) -> Option<i32> {
        match self {
            ErrKind::OsEio => Some(5),
            ErrKind::OsEstale => Some(116),
            ErrKind::OsEisdir => Some(21),
            ErrKind::OsEbadf => Some(9),
            ErrKind::OsEbusy => Some(16),
            ErrKind::OsEfbig => Some(27),
            ErrKind::OsEnomem => Some(12),
            _ => None,
        }
    }
    /// The error a simulated `open`/`read` returns.
    pub fn to_error(self) -> std::io::Error {
        use std::io::ErrorKind as K;
        if let Some(code) = self.raw_os() {
            return std::io::Error::from_raw_os_error(code);
        }
        let kind = match self {
            ErrKind::Other => K::Other,
            ErrKind::UnexpectedEof => K::UnexpectedEof,
            ErrKind::TimedOut => K::TimedOut,
            ErrKind::WouldBlock => K::WouldBlock,
            ErrKind::PermissionDenied => K::PermissionDenied,
            ErrKind::NotFound => K::NotFound,
            ErrKind::BrokenPipe => K::BrokenPipe,
            ErrKind::ConnectionReset => K::ConnectionReset,
            ErrKind::InvalidInput => K::InvalidInput,
            ErrKind::InvalidData => K::InvalidData,
            ErrKind::Unsupported => K::Unsupported,
            ErrKind::NotConnected => K::NotConnected,
            ErrKind::OutOfMemory => K::OutOfMemory,
            ErrKind::ConnectionAborted => K::ConnectionAborted,
            _ => unreachable!(),
        };
        kind.into()
    }
    pub const READ_KINDS: [ErrKind; 20] = [
        ErrKind::Other,
        ErrKind::UnexpectedEof,
        ErrKind::TimedOut,
        ErrKind::WouldBlock,
        ErrKind::PermissionDenied,
        ErrKind::BrokenPipe,
        ErrKind::ConnectionReset,
        ErrKind::InvalidData,
        ErrKind::InvalidInput,
        ErrKind::Unsupported,
        ErrKind::NotConnected,
        ErrKind::OutOfMemory,
        ErrKind::ConnectionAborted,
        ErrKind::OsEio,
        ErrKind::OsEstale,
        ErrKind::OsEisdir,
        ErrKind::OsEbadf,
        ErrKind::OsEbusy,
        ErrKind::OsEfbig,
        ErrKind::OsEnomem,
    ];
    pub const OPEN_KINDS: [ErrKind; 6] = [
        ErrKind::NotFound,
        ErrKind::PermissionDenied,
        ErrKind::Other,
        ErrKind::InvalidInput,
        ErrKind::OsEstale,
        ErrKind::OsEio,
    ];
}

#[derive(Clone, Debug, Serialize, Deserialize, PartialEq, Eq)]
pub struct Hard {
    /// The read that would start at this byte offset fails (offset >= len: the read that would
    /// have reported end of file fails instead).
    pub offset: usize,
    pub kind: ErrKind,
    /// Every later read on this handle fails too.
    pub persistent: bool,
}

#[derive(Clone, Debug, Default, Serialize, Deserialize, PartialEq, Eq)]
pub struct Plan {
    /// Cyclic list of maximal chunk sizes; empty = as much as the caller's buffer takes.
    pub chunks: Vec<usize>,
    /// Offsets at which one `read` returns `Interrupted` before delivering (duplicates = bursts).
    pub eintr_at: Vec<usize>,
    pub hard: Vec<Hard>,
    pub open_fail: Option<ErrKind>,
    /// (offset, image): when the read position first reaches `offset`, the updater atomically
    /// installs `image` at the path. The open handle keeps the content it was opened on.
    pub replace_at: Option<(usize, usize)>,
    /// The updater installs this image at the path right before this load's `open` binds.
    #[serde(default)]
    pub replace_before_open: Option<usize>,
    /// The source can be read ONCE (a pipe behind /dev/fd/N or a process substitution): the
    /// first open of this load delivers the content, every later open of the same load finds
    /// nothing left (immediate end of file).
    #[serde(default)]
    pub one_shot: bool,
    /// (offset, ms): the read that starts at or beyond `offset` takes `ms` milliseconds of
    /// SIMULATED time (a stalled network mount, a slow pipe, a descheduled process): the thread's
    /// monotonic clock and its wall clock advance, no byte is lost and no error is reported.
    /// Sorted by offset.
    #[serde(default)]
    pub stalls: Vec<(usize, u64)>,
}

impl Plan {
    pub fn is_quiet(&self) -> bool {
        self.eintr_at.is_empty() && self.hard.is_empty() && self.open_fail.is_none()
    }
    pub fn n_events(&self) -> usize {
        self.eintr_at.len()
            + self.hard.len()
            + self.open_fail.is_some() as usize
            + self.replace_at.is_some() as usize
            + self.replace_before_open.is_some() as usize
            + self.stalls.len()
    }
}

#[derive(Clone, Debug, Serialize, Deserialize, PartialEq, Eq)]
pub enum Op {
    /// `must_succeed`: the fault-free load at the end of every run (the executor lifts any
    /// denial first and ignores error events of the plan): liveness once faults stop.
    /// `spelling` (relative runs only): how the client spells the path — 0 the bare file name,
    /// 1 `./name`, 2 `sub/../name` (a real directory: same file), 3 `link/../name` where `link` is
    /// a symbolic link to a directory elsewhere (the kernel resolves `..` from the link's target:
    /// ANOTHER file of that name), 4 the absolute path, 5 the absolute path through `link/..`, 6 `~x/../name` (a real directory
    /// whose name starts with a tilde: same file).
    Load {
        client: usize,
        plan: Plan,
        #[serde(default)]
        must_succeed: bool,
        #[serde(default)]
        spelling: u8,
    },
    /// `full`: every whole second within +-40 s of every entry (the once-per-table sweep).
    Query { client: usize, probe_seed: u64, #[serde(default)] full: bool },
    Replace { image: usize },
    Deny { kind: ErrKind },
    Allow,
    Restart { client: usize },
    /// The wall clock jumps (forwards or backwards) to this many seconds past the UNIX epoch;
    /// `None`: to some time before 1970, where `Epoch::now()` reports an error.
    SetClock { unix_s: Option<u64> },
    /// `ms` milliseconds of simulated time pass between two operations (nothing happens: the
    /// monotonic clock and the wall clock of the process advance). A provider that was right a
    /// day ago must be right now.
    Pause { ms: u64 },
    /// Only in runs whose clients name the file by a RELATIVE path: the process changes its
    /// working directory to a sibling directory that holds another file under the same name
    /// (`away`), or back home. The same relative path then names a different file.
    Chdir { away: bool },
    /// Several clients load concurrently, each on its own thread and its own path; the seeded
    /// scheduler of `conc.rs` decides the interleaving at read granularity.
    Concurrent {
        threads: Vec<ThreadSpec>,
        sched_seed: u64,
        /// The turn moves with probability 1/switch_den at each yield point.
        switch_den: u64,
        /// All threads load the SAME path (thread 0's image is installed there first; a
        /// replacement planned by any thread changes what the others find).
        #[serde(default)]
        same_path: bool,
    },
}

#[derive(Clone, Debug, Serialize, Deserialize, PartialEq, Eq)]
pub struct ThreadSpec {
    pub image: usize,
    pub plan: Plan,
    pub probe_seed: u64,
}

impl Op {
    pub fn kind_char(&self) -> char {
        match self {
            Op::Load { .. } => 'L',
            Op::Query { .. } => 'Q',
            Op::Replace { .. } => 'R',
            Op::Deny { .. } => 'D',
            Op::Allow => 'A',
            Op::Restart { .. } => 'X',
            Op::SetClock { .. } => 'T',
            Op::Pause { .. } => 'P',
            Op::Chdir { .. } => 'H',
            Op::Concurrent { .. } => 'C',
        }
    }
}

#[derive(Clone, Debug, Serialize, Deserialize, PartialEq, Eq)]
pub struct Scenario {
    pub seed: u64,
    pub stratum: String,
    pub n_clients: usize,
    /// Index (into the pool handed to the executor) of the image on disk at the start.
    pub initial: usize,
    pub ops: Vec<Op>,
    /// What `stat` on the real path reports during this run (see `RealDisk::stat_lies`).
    #[serde(default)]
    pub stat_lies: u8,
    /// The clients name the file by a relative path (the working directory is the file's
    /// directory at the start of the run; `Chdir` operations move the process around).
    #[serde(default)]
    pub relative: bool,
    /// The image found under the same name in the other directory (relative runs only).
    #[serde(default)]
    pub decoy: usize,
    /// What the wall clock reads when the run starts (seconds past the UNIX epoch; `None`: before
    /// 1970). Always simulated: no run ever reads the real clock.
    #[serde(default = "default_clock")]
    pub clock: Option<u64>,
}

fn default_clock() -> Option<u64> {
    Some(1_790_380_800) // 2026-09-26
}

/// Wall-clock readings worth trying: around every leap second (the inserted second included), the
/// UNIX epoch, the shipped list's expiry, "today", the NTP era rollover, 2^31 s, far future.
pub fn clock_reading(rng: &mut Rng) -> Option<u64> {
    const UNIX_TO_NTP: u64 = 2_208_988_800;
    match rng.below(12) {
        0 => None,
        1 => Some(0),
        2 => Some(rng.below(86_400 * 366)),
        3 | 4 => {
            // within a minute of a leap second insertion
            let (y, m, _) = *rng.pick(&crate::image::IERS_DATES);
            let t = crate::refdata::ntp_seconds_of_date(y, m, 1) - UNIX_TO_NTP;
            Some(t.saturating_add(rng.below(120)).saturating_sub(60))
        }
        5 => Some(3_896_899_200 - UNIX_TO_NTP + rng.below(4) * 86_400 - 2 * 86_400), // expiry of the shipped list
        6 => Some(1_790_380_800 + rng.below(86_400 * 400)),                          // about now
        7 => Some((1u64 << 32) - UNIX_TO_NTP + rng.below(7200) - 3600),               // NTP era rollover, 2036
        8 => Some((1u64 << 31) + rng.below(7200) - 3600),                             // 2038
        9 => Some(4_102_444_800 + rng.below(86_400 * 365 * 80)),                      // 2100-2180
        10 => Some(9_223_372_036 + rng.below(7200) - 3600),                           // i64 ns since 1970 overflows (2262)
        _ => Some(rng.below(4_500_000_000)),                                          // anywhere 1970-2112
    }
}

/// What the generator knows about each pool image.
pub struct PoolInfo {
    pub len: usize,
    /// Judged strictly (today's loader, and every acceptable one, loads it).
    pub strict: bool,
    pub by_class: Vec<(OffClass, Vec<usize>)>,
}

impl PoolInfo {
    pub fn of(img: &Image) -> PoolInfo {
        let ix = ImageIndex::new(img.bytes());
        let mut by_class: Vec<(OffClass, Vec<usize>)> = Vec::new();
        for (off, c) in ix.interesting_offsets(img.bytes()) {
            match by_class.iter_mut().find(|(k, _)| *k == c) {
                Some((_, v)) => v.push(off),
                None => by_class.push((c, vec![off])),
            }
        }
        by_class.sort_by_key(|(c, _)| *c);
        PoolInfo {
            len: img.len(),
            strict: img.strict,
            by_class,
        }
    }
}

#[derive(Clone, Copy, Debug, PartialEq, Eq)]
pub enum Stratum {
    /// Run i <= len(V0): the first operation is a load of V0 with one hard fault at offset i.
    ByteSweep(usize),
    /// No fault of any kind, whole-buffer reads.
    Quiet,
    /// Only transparent events: short reads and replacement during the load.
    Transparent,
    /// Everything, swarm-selected.
    Mixed,
    /// 2-3 clients loading concurrently under a seeded interleaving.
    Concurrent,
    /// One long history (60-150 operations, up to 100 loads over 4-6 images): whatever
    /// accumulates per process (a cache with a capacity, a counter) within reach of one run.
    LongHistory,
    /// One very long, nearly fault-free history (1700-2200 operations, some 800 loads of files
    /// every loader accepts, more than 131 072 lookups and conversions): whatever counts calls in something narrow, fills a
    /// table with a capacity, or changes behaviour on the N-th call — within reach of ONE run,
    /// so that it replays from its scenario in a fresh process.
    Marathon,
}

const K_SHORT: u32 = 1;
const K_EINTR: u32 = 2;
const K_HARD: u32 = 4;
const K_OPENFAIL: u32 = 8;
const K_REPLACE_MID: u32 = 16;
const K_DENY: u32 = 32;
const K_RESTART: u32 = 64;
const K_REPLACE: u32 = 128;
const K_PERSIST: u32 = 256;
const K_MULTI: u32 = 512;

fn aimed_offset(rng: &mut Rng, info: &PoolInfo) -> usize {
    if rng.chance(3, 5) && !info.by_class.is_empty() {
        let (_, offs) = rng.pick(&info.by_class);
        *rng.pick(offs)
    } else {
        rng.urange(0, info.len)
    }
}

fn gen_chunks(rng: &mut Rng, info: &PoolInfo, allow_short: bool) -> Vec<usize> {
    if !allow_short {
        return vec![];
    }
    if info.len > 14_000 {
        // Large images: no tiny-chunk styles (a 130 KiB file in 1-byte reads costs more than it
        // tells); the boundaries that matter here are those of plausible internal buffers.
        return match rng.below(6) {
            0 => vec![],
            1 => vec![*rng.pick(&[4096usize, 8192, 16384, 32768, 65536])],
            2 => vec![rng.urange(500, 5000)],
            3 => {
                let off = aimed_offset(rng, info).max(1);
                vec![off, 65536]
            }
            4 => vec![*rng.pick(&[16384usize, 32768, 65536]) - rng.urange(0, 3), 7, 65536],
            _ => vec![rng.urange(1, 3), rng.urange(1000, 20000)],
        };
    }
    match rng.below(8) {
        0 => vec![],
        1 => vec![1],
        2 => vec![rng.urange(2, 8)],
        3 => vec![rng.urange(9, 512)],
        4 => {
            // mixed cycle
            let n = rng.urange(2, 6);
            (0..n)
                .map(|_| match rng.below(3) {
                    0 => rng.urange(1, 4),
                    1 => rng.urange(5, 100),
                    _ => rng.urange(100, 65536),
                })
                .collect()
        }
        5 => {
            // one boundary exactly at an interesting offset, then large reads
            let off = aimed_offset(rng, info).max(1);
            vec![off, 65536]
        }
        6 => {
            // boundary at an interesting offset, then a 1-byte read, then the rest
            let off = aimed_offset(rng, info).max(1);
            vec![off, 1, 65536, 65536, 65536, 65536]
        }
        _ => vec![rng.urange(1, 3), rng.urange(1000, 20000)],
    }
}

fn gen_plan(rng: &mut Rng, info: &PoolInfo, kinds: u32, density: u64, n_pool_choices: &[usize]) -> Plan {
    let mut p = Plan {
        chunks: gen_chunks(rng, info, kinds & K_SHORT != 0),
        ..Plan::default()
    };
    if kinds & K_REPLACE_MID != 0 && rng.chance(1, 3) {
        let off = aimed_offset(rng, info);
        p.replace_at = Some((off, *rng.pick(n_pool_choices)));
    }
    if kinds & K_REPLACE_MID != 0 && rng.chance(1, 8) {
        p.replace_before_open = Some(*rng.pick(n_pool_choices));
    }
    if kinds & K_SHORT != 0 && p.replace_at.is_none() && p.replace_before_open.is_none() && rng.chance(1, 8) {
        // (never together with an error: a loader that re-opens in order to RETRY would find
        // the source drained through no fault of its own design; only re-opening a healthy source
        // is judged here)
        p.one_shot = true;
        return p;
    }
    // density/8 is the probability that this load carries an error-returning event at all.
    if !rng.chance(density, 8) {
        return p;
    }
    let mut any = false;
    if kinds & K_EINTR != 0 && rng.chance(1, 2) {
        let n = match rng.below(4) {
            0 => 1,
            1 => 2,
            2 => rng.urange(3, 6),
            _ => rng.urange(1, 24),
        };
        for _ in 0..n {
            let off = match rng.below(6) {
                0 => 0,
                1 => info.len, // just before the read that reports EOF
                _ => aimed_offset(rng, info),
            };
            p.eintr_at.push(off);
            if rng.chance(1, 6) {
                p.eintr_at.push(off); // burst
            }
        }
        p.eintr_at.sort_unstable();
        any = true;
    }
    if kinds & K_HARD != 0 && (rng.chance(1, 2) || !any) {
        let n = if kinds & K_MULTI != 0 && rng.chance(1, 3) { 2 } else { 1 };
        for _ in 0..n {
            let off = match rng.below(8) {
                0 => 0,
                1 => info.len, // error instead of EOF
                2 => info.len.saturating_sub(1),
                _ => aimed_offset(rng, info),
            };
            p.hard.push(Hard {
                offset: off,
                kind: *rng.pick(&ErrKind::READ_KINDS),
                persistent: kinds & K_PERSIST != 0 && rng.chance(1, 3),
            });
        }
        p.hard.sort_by_key(|h| h.offset);
        any = true;
    }
    if kinds & K_OPENFAIL != 0 && (rng.chance(1, 6) || !any) {
        p.open_fail = Some(*rng.pick(&ErrKind::OPEN_KINDS));
    }
    p
}

pub fn stratum_of(run_index: u64, v0_len: usize, rng: &mut Rng) -> Stratum {
    // Three of every four run indices sweep the byte offsets of the shipped list (so that the
    // sweep is complete after 4/3 * (len + 1) runs); the fourth is drawn from the other strata, so
    // that every block of runs contains all kinds.
    if run_index % 4 != 3 {
        let off = 3 * (run_index / 4) + run_index % 4;
        if (off as usize) <= v0_len {
            return Stratum::ByteSweep(off as usize);
        }
    }
    if run_index % 4096 == 131 {
        return Stratum::Marathon;
    }
    match rng.below(16) {
        0 => Stratum::Quiet,
        1..=3 => Stratum::Transparent,
        4 => Stratum::Concurrent,
        5 if run_index % 64 == 3 => Stratum::LongHistory,
        _ => Stratum::Mixed,
    }
}

/// Generates the scenario of one run. `pool[0]` is the shipped list.
pub fn generate(seed: u64, run_index: u64, infos: &[PoolInfo]) -> Scenario {
    let mut rng = Rng::new(seed);
    let stratum = stratum_of(run_index, infos[0].len, &mut rng);

    // Images of this run: 1..=3 pool members; the shipped list is over-represented.
    let n_images = rng.urange(1, 3);
    let mut imgs: Vec<usize> = Vec::with_capacity(n_images);
    for k in 0..n_images {
        let pick = if (k == 0 && rng.chance(1, 2)) || infos.len() == 1 {
            0
        } else {
            rng.urange(1, infos.len() - 1)
        };
        imgs.push(pick);
    }
    if let Stratum::ByteSweep(_) = stratum {
        imgs[0] = 0;
    }
    let n_clients = rng.urange(1, 3);
    let marathon = stratum == Stratum::Marathon;
    let long = stratum == Stratum::LongHistory || marathon;
    let n_ops = if marathon {
        rng.urange(1700, 2200)
    } else if long {
        rng.urange(60, 150)
    } else {
        rng.urange(3, 12)
    };
    let max_loads = if marathon { 900 } else if long { 100 } else { 6 };
    if marathon {
        // files every loader loads: what counts here is how MANY loads succeed in a row (a
        // counter that wraps every 256 loads should meet a successful load more than once)
        for slot in imgs.iter_mut() {
            for _ in 0..infos.len() {
                if infos[*slot].strict && infos[*slot].len < 20_000 {
                    break;
                }
                *slot = (*slot + 1) % infos.len();
            }
        }
    }
    if long {
        // more images, small ones (a long history of 1-byte reads on a 140 KB file tells nothing)
        for _ in 0..3 {
            let cand = rng.urange(0, infos.len() - 1);
            if infos[cand].len < 20_000 && (!marathon || infos[cand].strict) {
                imgs.push(cand);
            }
        }
    }
    // A second, different image so that a replacement can change what is on disk.
    if imgs.len() == 1 && infos.len() > 1 && rng.chance(3, 4) {
        let mut other = rng.urange(0, infos.len() - 1);
        if other == imgs[0] {
            other = (other + 1) % infos.len();
        }
        imgs.push(other);
    }

    // Swarm: which kinds of event exist at all in this run.
    let mut kinds: u32 = 0;
    match stratum {
        Stratum::Quiet => {
            kinds = if rng.chance(1, 2) { K_REPLACE | K_RESTART } else { 0 };
        }
        Stratum::Transparent => {
            kinds = K_SHORT;
            for k in [K_REPLACE_MID, K_REPLACE, K_RESTART] {
                if rng.chance(2, 3) {
                    kinds |= k;
                }
            }
        }
        Stratum::Concurrent => {
            kinds = K_SHORT;
            for k in [K_EINTR, K_HARD] {
                if rng.chance(1, 3) {
                    kinds |= k;
                }
            }
        }
        Stratum::Marathon => {
            // nearly fault-free: the point is the length of the history, not the faults
            kinds = K_SHORT | K_REPLACE | K_RESTART;
            if rng.chance(1, 3) {
                kinds |= K_EINTR;
            }
        }
        Stratum::LongHistory => {
            kinds = K_SHORT | K_REPLACE | K_REPLACE_MID | K_RESTART;
            for k in [K_EINTR, K_HARD, K_OPENFAIL, K_DENY] {
                if rng.chance(1, 3) {
                    kinds |= k;
                }
            }
        }
        Stratum::Mixed | Stratum::ByteSweep(_) => {
            for k in [
                K_SHORT, K_EINTR, K_HARD, K_OPENFAIL, K_REPLACE_MID, K_DENY, K_RESTART, K_REPLACE,
                K_PERSIST, K_MULTI,
            ] {
                if rng.chance(1, 2) {
                    kinds |= k;
                }
            }
            if kinds & (K_EINTR | K_HARD | K_OPENFAIL | K_DENY) == 0 {
                kinds |= *rng.pick(&[K_EINTR, K_HARD, K_HARD, K_OPENFAIL]);
            }
        }
    }
    let density: u64 = match stratum {
        Stratum::Quiet | Stratum::Transparent => 0,
        Stratum::Concurrent | Stratum::LongHistory | Stratum::Marathon => 2,
        _ => *rng.pick(&[2, 4, 4, 6]),
    };

    let mut ops: Vec<Op> = Vec::with_capacity(n_ops + 3);
    // One sequential run in twelve names the file by a relative path and moves about.
    let relative = !matches!(stratum, Stratum::ByteSweep(_) | Stratum::Concurrent)
        && infos.len() > 1
        && rng.chance(1, 12);
    let decoy = if relative {
        let mut d = rng.urange(0, infos.len() - 1);
        for _ in 0..infos.len() {
            if !imgs.contains(&d) && infos[d].len < 20_000 {
                break;
            }
            d = (d + 1) % infos.len();
        }
        d
    } else {
        0
    };
    let mut away = false;
    let mut current = imgs[0]; // predicted image on disk
    let mut loads = 0usize;

    if let Stratum::ByteSweep(off) = stratum {
        let info = &infos[0];
        let mut plan = Plan {
            chunks: gen_chunks(&mut rng, info, kinds & K_SHORT != 0),
            ..Plan::default()
        };
        if kinds & K_EINTR != 0 && rng.chance(1, 3) {
            plan.eintr_at.push(aimed_offset(&mut rng, info));
        }
        plan.hard.push(Hard {
            offset: off,
            kind: *rng.pick(&ErrKind::READ_KINDS),
            persistent: kinds & K_PERSIST != 0 && rng.chance(1, 3),
        });
        ops.push(Op::Load { client: 0, plan, must_succeed: false, spelling: 0 });
        ops.push(Op::Query {
            client: 0,
            probe_seed: rng.next_u64(),
            full: false,
        });
        loads += 1;
    }

    if stratum == Stratum::Concurrent {
        let n_threads = rng.urange(2, 3);
        let mut threads = Vec::new();
        for j in 0..n_threads {
            // different images, so that mixed-up content is visible
            let image = if j < imgs.len() {
                imgs[j]
            } else {
                rng.urange(0, infos.len() - 1)
            };
            let mut plan = gen_plan(&mut rng, &infos[image], kinds & !K_REPLACE_MID, density, &imgs);
            plan.replace_at = None;
            plan.replace_before_open = None;
            // many yield points: small-to-medium chunks
            plan.chunks = match rng.below(4) {
                0 => vec![rng.urange(16, 64)],
                1 => vec![rng.urange(64, 600)],
                2 => vec![rng.urange(1, 8), rng.urange(200, 4000)],
                _ => vec![rng.urange(500, 5000)],
            };
            threads.push(ThreadSpec {
                image,
                plan,
                probe_seed: rng.next_u64(),
            });
        }
        // One concurrent run in three: everybody loads the same path while thread 0's load makes
        // the updater replace the file (early, so that later callers start after the replacement).
        let same_path = rng.chance(1, 3) && infos.len() > 1;
        if same_path {
            let mut other = rng.urange(0, infos.len() - 1);
            if other == threads[0].image {
                other = (other + 1) % infos.len();
            }
            let off = match rng.below(3) {
                0 => 0,
                1 => rng.urange(0, 64),
                _ => aimed_offset(&mut rng, &infos[threads[0].image]),
            };
            threads[0].plan.replace_at = Some((off, other));
        }
        ops.push(Op::Concurrent {
            threads,
            sched_seed: rng.next_u64(),
            switch_den: *rng.pick(&[1, 1, 2, 4, 16]),
            same_path,
        });
    }

    while ops.len() < n_ops && stratum != Stratum::Concurrent {
        if relative && rng.chance(1, 5) {
            away = !away;
            ops.push(Op::Chdir { away });
        }
        let r = rng.below(100);
        let client = rng.usize_below(n_clients);
        if r < 45 {
            if loads >= max_loads {
                continue_or_query(&mut ops, client, &mut rng);
                continue;
            }
            let mut plan = gen_plan(&mut rng, &infos[current], kinds, density, &imgs);
            if long && plan.chunks.iter().any(|&c| c < 64) {
                plan.chunks = vec![256]; // a hundred loads byte by byte tell nothing more than one
            }
            if let Some((_, img)) = plan.replace_at {
                current = img;
            }
            let spelling = if !relative {
                0
            } else if away {
                *rng.pick(&[0u8, 0, 1, 4, 5])
            } else {
                *rng.pick(&[0u8, 0, 1, 2, 3, 3, 4, 5, 6])
            };
            ops.push(Op::Load { client, plan, must_succeed: false, spelling });
            loads += 1;
            // a query right after a load is the common pattern
            if rng.chance(2, 3) {
                ops.push(Op::Query {
                    client,
                    probe_seed: rng.next_u64(),
            full: false,
                });
            }
        } else if r < 65 {
            ops.push(Op::Query {
                client,
                probe_seed: rng.next_u64(),
            full: false,
            });
        } else if r < 78 {
            if kinds & K_REPLACE != 0 {
                let mut img = *rng.pick(&imgs);
                if img == current {
                    img = *rng.pick(&imgs); // second draw: usually a different image
                }
                current = img;
                ops.push(Op::Replace { image: img });
            }
        } else if r < 88 {
            if kinds & K_DENY != 0 {
                if rng.chance(2, 3) {
                    ops.push(Op::Deny {
                        kind: *rng.pick(&[ErrKind::NotFound, ErrKind::PermissionDenied]),
                    });
                } else {
                    ops.push(Op::Allow);
                }
            }
        } else if r >= 97 {
            // the wall clock jumps; nothing C06 is about may depend on it
            ops.push(Op::SetClock {
                unix_s: clock_reading(&mut rng),
            });
        } else if kinds & K_RESTART != 0 {
            ops.push(Op::Restart { client });
        }
    }

    // Fault-free tail: liveness once faults stop.
    if away {
        ops.push(Op::Chdir { away: false });
    }
    ops.push(Op::Allow);
    ops.push(Op::Load {
        client: 0,
        plan: Plan {
            chunks: gen_chunks(&mut rng, &infos[current], kinds & K_SHORT != 0),
            ..Plan::default()
        },
        must_succeed: true,
        spelling: 0,
    });
    ops.push(Op::Query {
        client: 0,
        probe_seed: rng.next_u64(),
            full: false,
    });

    // One run in eight lives in a world where the size `stat` reports is not the content length.
    let stat_lies = match (stratum, rng.below(16)) {
        (Stratum::ByteSweep(_), _) => 0,
        (_, 0) => 1,
        (_, 1) => 2,
        _ => 0,
    };
    let clock = clock_reading(&mut rng);
    if stratum != Stratum::Quiet {
        add_stalls(&mut ops, seed);
        add_pauses(&mut ops, seed);
    }
    Scenario {
        seed,
        stat_lies,
        relative,
        decoy,
        clock,
        stratum: match stratum {
            Stratum::ByteSweep(i) => format!("bytesweep@{i}"),
            Stratum::Quiet => "quiet".into(),
            Stratum::Transparent => "transparent".into(),
            Stratum::Mixed => "mixed".into(),
            Stratum::Concurrent => "concurrent".into(),
            Stratum::LongHistory => "longhistory".into(),
            Stratum::Marathon => "marathon".into(),
        },
        n_clients,
        initial: imgs[0],
        ops,
    }
}

/// Simulated durations of a stall, in milliseconds: around a second (where a budget of "one
/// second" flips), around a minute, an hour, a day, thirty days.
pub const STALL_MS: [u64; 14] = [
    1, 50, 999, 1_000, 1_001, 1_500, 5_000, 30_000, 60_001, 600_000, 3_600_000, 86_400_000, 86_401_000,
    2_592_000_000,
];

/// Decorates one load in six with one or two stalls. A pass of its own, with a generator of its
/// own, AFTER the scenario has been drawn: the scenarios themselves are those of the same seed
/// before stalls existed (elapsed time is invisible to the unchanged tree, so nothing else moves).
fn add_stalls(ops: &mut [Op], seed: u64) {
    let mut rng = Rng::new(seed ^ 0x57A1_1ED0_C10C_0001);
    let mut decorate = |plan: &mut Plan, rng: &mut Rng| {
        if !rng.chance(1, 6) {
            return;
        }
        let n = if rng.chance(1, 4) { 2 } else { 1 };
        for _ in 0..n {
            let off = match rng.below(6) {
                0 => 0,                  // the very first read (the open itself was slow)
                1 => usize::MAX / 2,     // the read that reports end of file
                _ => rng.urange(1, 11_000),
            };
            plan.stalls.push((off, *rng.pick(&STALL_MS)));
        }
        plan.stalls.sort_unstable();
    };
    for op in ops.iter_mut() {
        match op {
            Op::Load { plan, must_succeed: false, .. } => decorate(plan, &mut rng),
            Op::Concurrent { threads, .. } => {
                for t in threads.iter_mut() {
                    decorate(&mut t.plan, &mut rng);
                }
            }
            _ => {}
        }
    }
}

/// Simulated durations of a pause between operations, in milliseconds: a second to 400 days.
pub const PAUSE_MS: [u64; 10] = [
    1_000, 61_000, 3_600_000, 3_601_000, 86_400_000, 90_000_000, 604_800_000, 2_678_400_000, 31_622_400_000,
    34_560_000_000,
];

/// Inserts pauses between operations (about one gap in ten; never into the fault-free tail).
/// Like `add_stalls`, a pass of its own with a generator of its own.
fn add_pauses(ops: &mut Vec<Op>, seed: u64) {
    let mut rng = Rng::new(seed ^ 0x9A05_ED00_71C4_0002);
    let body = ops.len().saturating_sub(3);
    let mut out = Vec::with_capacity(ops.len() + 4);
    for (i, op) in ops.drain(..).enumerate() {
        if i > 0 && i <= body && rng.chance(1, 10) {
            out.push(Op::Pause { ms: *rng.pick(&PAUSE_MS) });
        }
        out.push(op);
    }
    *ops = out;
}

fn continue_or_query(ops: &mut Vec<Op>, client: usize, rng: &mut Rng) {
    ops.push(Op::Query {
        client,
        probe_seed: rng.next_u64(),
            full: false,
    });
}
