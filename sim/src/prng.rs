//! The only source of randomness in the simulator: splitmix64 seeding a xoshiro256**.
//! Written out here (no crate) so that a seed denotes the same execution forever.

#[derive(Clone, Debug)]
pub struct Rng {
    s: [u64; 4],
}

#[inline]
pub fn splitmix64(x: &mut u64) -> u64 {
    *x = x.wrapping_add(0x9E37_79B9_7F4A_7C15);
    let mut z = *x;
    z = (z ^ (z >> 30)).wrapping_mul(0xBF58_476D_1CE4_E5B9);
    z = (z ^ (z >> 27)).wrapping_mul(0x94D0_49BB_1331_11EB);
    z ^ (z >> 31)
}

/// Seed of run `i` of a batch whose base seed is `base`.
pub fn mix(base: u64, i: u64) -> u64 {
    let mut x = base ^ i.wrapping_mul(0xD6E8_FEB8_6659_FD93).rotate_left(17);
    let a = splitmix64(&mut x);
    let b = splitmix64(&mut x);
    a ^ b.rotate_left(29) ^ i
}

impl Rng {
    pub fn new(seed: u64) -> Self {
        let mut x = seed;
        let s = [
            splitmix64(&mut x),
            splitmix64(&mut x),
            splitmix64(&mut x),
            splitmix64(&mut x),
        ];
        Rng { s }
    }

    #[inline]
    pub fn next_u64(&mut self) -> u64 {
        let result = self.s[1].wrapping_mul(5).rotate_left(7).wrapping_mul(9);
        let t = self.s[1] << 17;
        self.s[2] ^= self.s[0];
        self.s[3] ^= self.s[1];
        self.s[1] ^= self.s[2];
        self.s[0] ^= self.s[3];
        self.s[2] ^= t;
        self.s[3] = self.s[3].rotate_left(45);
        result
    }

    /// Uniform in `0..n` (n > 0). Multiply-shift; the tiny bias is irrelevant here and it is
    /// branch-free, hence the number of draws never depends on the value drawn.
    #[inline]
    pub fn below(&mut self, n: u64) -> u64 {
        debug_assert!(n > 0);
        (((self.next_u64() as u128) * (n as u128)) >> 64) as u64
    }

    #[inline]
    pub fn usize_below(&mut self, n: usize) -> usize {
        self.below(n as u64) as usize
    }

    /// Uniform in `lo..=hi`.
    #[inline]
    pub fn range(&mut self, lo: u64, hi: u64) -> u64 {
        lo + self.below(hi - lo + 1)
    }

    #[inline]
    pub fn urange(&mut self, lo: usize, hi: usize) -> usize {
        self.range(lo as u64, hi as u64) as usize
    }

    /// True with probability `num/den`.
    #[inline]
    pub fn chance(&mut self, num: u64, den: u64) -> bool {
        self.below(den) < num
    }

    #[inline]
    pub fn pick<'a, T>(&mut self, xs: &'a [T]) -> &'a T {
        &xs[self.usize_below(xs.len())]
    }

    /// An independent generator for a sub-component, so that adding draws in one component
    /// does not shift every later component of the same run.
    pub fn fork(&mut self) -> Rng {
        Rng::new(self.next_u64())
    }
}

/// FNV-1a, 64 bit; used for the event-log hash and for signatures.
#[derive(Clone, Copy, Debug)]
pub struct Fnv(pub u64);

impl Default for Fnv {
    fn default() -> Self {
        Fnv(0xcbf2_9ce4_8422_2325)
    }
}

impl Fnv {
    #[inline]
    pub fn byte(&mut self, b: u8) {
        self.0 ^= b as u64;
        self.0 = self.0.wrapping_mul(0x0000_0100_0000_01B3);
    }
    #[inline]
    pub fn u64(&mut self, v: u64) {
        for b in v.to_le_bytes() {
            self.byte(b);
        }
    }
    #[inline]
    pub fn bytes(&mut self, bs: &[u8]) {
        for &b in bs {
            self.byte(b);
        }
        self.byte(0xff);
    }
    pub fn of(bs: &[u8]) -> u64 {
        let mut h = Fnv::default();
        h.bytes(bs);
        h.0
    }
}
