//! Disk images ("configurations"): the shipped IERS list and rendered IERS-format files whose
//! table is known by construction.

use crate::prng::Rng;
use crate::refdata::{ntp_seconds_of_date, Entry};
use serde::{Deserialize, Serialize};

#[derive(Clone, Debug, Serialize, Deserialize, PartialEq, Eq)]
pub struct Image {
    /// Short label used in logs and signatures ("V0", "R17", ...).
    pub name: String,
    /// Coarse class for coverage accounting.
    pub class: String,
    /// File content. Always valid UTF-8 for judged images.
    pub text: String,
    /// The table this content denotes (by construction, or by the reference reader for V0).
    pub table: Vec<Entry>,
    /// `false` for renderings that use liberties whose status is debatable (indented data lines,
    /// white-space-only lines, indented comments, trailing blanks): a loader may refuse such a
    /// file (O2 is not applied), but if it answers `Ok` the table must still be the file's (O1).
    #[serde(default = "yes")]
    pub strict: bool,
    /// Content that is not valid UTF-8 (stray Latin-1 bytes in comments); replaces `text`.
    #[serde(default, skip_serializing_if = "Option::is_none")]
    pub raw: Option<Vec<u8>>,
}

fn yes() -> bool {
    true
}

impl Image {
    pub fn bytes(&self) -> &[u8] {
        match &self.raw {
            Some(r) => r,
            None => self.text.as_bytes(),
        }
    }
    pub fn len(&self) -> usize {
        self.bytes().len()
    }
}

/// Where in the file an offset falls; used to aim faults and to report where they landed.
#[derive(Clone, Copy, Debug, PartialEq, Eq, PartialOrd, Ord, Hash, Serialize, Deserialize)]
pub enum OffClass {
    Start,        // offset 0
    Comment,      // inside a '#' line
    CommentMb,    // on a continuation byte of a multi-byte character (comment lines only)
    TsDigits,     // inside the first column of a data line (not its first byte)
    DataLineStart,// first byte of a data line
    ColGap,       // whitespace between the two columns
    DatDigits,    // inside the second column
    DataTail,     // after the second column, before the line end
    Cr,           // on the '\r' of a CRLF
    Lf,           // on a '\n'
    LastByte,     // the last byte of the file
    Eof,          // offset == len
    Blank,        // anything else (empty line content)
}

pub struct ImageIndex {
    line_starts: Vec<usize>,
}

impl ImageIndex {
    pub fn new(bytes: &[u8]) -> Self {
        let mut line_starts = vec![0usize];
        for (i, &b) in bytes.iter().enumerate() {
            if b == b'\n' && i + 1 < bytes.len() {
                line_starts.push(i + 1);
            }
        }
        ImageIndex { line_starts }
    }

    /// 0-based line number containing `off` (the last line for off >= len).
    pub fn line_of(&self, off: usize) -> usize {
        match self.line_starts.binary_search(&off) {
            Ok(i) => i,
            Err(i) => i - 1,
        }
    }

    pub fn n_lines(&self) -> usize {
        self.line_starts.len()
    }

    pub fn line_start(&self, line: usize) -> usize {
        self.line_starts[line]
    }

    pub fn classify(&self, bytes: &[u8], off: usize) -> OffClass {
        let len = bytes.len();
        if off >= len {
            return OffClass::Eof;
        }
        if off == 0 {
            return OffClass::Start;
        }
        if off == len - 1 {
            return OffClass::LastByte;
        }
        let b = bytes[off];
        if b == b'\n' {
            return OffClass::Lf;
        }
        if b == b'\r' && bytes.get(off + 1) == Some(&b'\n') {
            return OffClass::Cr;
        }
        let ls = self.line_starts[self.line_of(off)];
        if bytes[ls] == b'#' {
            if (0x80..0xC0).contains(&b) {
                return OffClass::CommentMb;
            }
            return OffClass::Comment;
        }
        if off == ls {
            return OffClass::DataLineStart;
        }
        // Data line: walk the columns.
        let mut i = ls;
        while i < len && bytes[i].is_ascii_digit() {
            i += 1;
        }
        if off < i {
            return OffClass::TsDigits;
        }
        let mut j = i;
        while j < len && (bytes[j] == b' ' || bytes[j] == b'\t') {
            j += 1;
        }
        if off < j {
            return OffClass::ColGap;
        }
        let mut k = j;
        while k < len && bytes[k].is_ascii_digit() {
            k += 1;
        }
        if off < k {
            return OffClass::DatDigits;
        }
        if b != b'\n' && b != b'\r' {
            return OffClass::DataTail;
        }
        OffClass::Blank
    }

    /// Offsets worth aiming a fault or a chunk boundary at, by class.
    pub fn interesting_offsets(&self, bytes: &[u8]) -> Vec<(usize, OffClass)> {
        let mut out = Vec::new();
        let mut prev = None;
        for off in 0..=bytes.len() {
            let c = self.classify(bytes, off);
            let keep = match c {
                OffClass::Comment | OffClass::Blank => false,
                // keep the first and last byte of runs of these
                OffClass::TsDigits | OffClass::DataTail => prev != Some(c),
                _ => true,
            };
            if keep {
                out.push((off, c));
            }
            prev = Some(c);
        }
        out
    }
}

/// The 28 IERS entries as dates; the renderer takes prefixes of this list (the bulletins that
/// actually existed) and extends it with hypothetical future entries. The timestamps are
/// computed from the dates by `ntp_seconds_of_date`, not copied from hifitime.
pub const IERS_DATES: [(i64, u32, u8); 28] = [
    (1972, 1, 10), (1972, 7, 11), (1973, 1, 12), (1974, 1, 13), (1975, 1, 14), (1976, 1, 15),
    (1977, 1, 16), (1978, 1, 17), (1979, 1, 18), (1980, 1, 19), (1981, 7, 20), (1982, 7, 21),
    (1983, 7, 22), (1985, 7, 23), (1988, 1, 24), (1990, 1, 25), (1991, 1, 26), (1992, 7, 27),
    (1993, 7, 28), (1994, 7, 29), (1996, 1, 30), (1997, 7, 31), (1999, 1, 32), (2006, 1, 33),
    (2009, 1, 34), (2012, 7, 35), (2015, 7, 36), (2017, 1, 37),
];

pub fn real_table() -> Vec<Entry> {
    IERS_DATES
        .iter()
        .map(|&(y, m, dat)| (ntp_seconds_of_date(y, m, 1), dat))
        .collect()
}

const MONTH_ABBR: [&str; 12] = [
    "Jan", "Feb", "Mar", "Apr", "May", "Jun", "Jul", "Aug", "Sep", "Oct", "Nov", "Dec",
];

/// Comment-line material. Real header lines of the IERS/NIST/IETF variants of the file, plus
/// lines with multi-byte UTF-8 (the Paris Observatory variant carries accented text), so that a
/// short read can split a character.
const COMMENTS: [&str; 25] = [
    // the special comments are comments: they may stand anywhere a comment may
    "#h\t2c413af9 124e1031 f165174 ff527c6b 756ae00b",
    "#$\t 3676924800",
    "#@\t3896899200",
    "#\tIn the following text, the symbol '#' introduces",
    "#\ta comment, which continues from that symbol until",
    "#\tthe end of the line. A plain comment line has a",
    "#\twhitespace character following the comment indicator.",
    "#",
    "#\tThe first column shows an epoch as a number of seconds",
    "#\tsince 1 January 1900, 00:00:00 (1900.0 is also used to",
    "#\tindicate the same epoch.) Both of these time stamp formats",
    "#\tignore the complexities of the time scales that were",
    "#\tused before the current definition of UTC at the start",
    "#\tof 1972.",
    "#\tThe second column shows the number of seconds that",
    "#\tmust be added to UTC to compute TAI for any timestamp",
    "#\tat or after that epoch.",
    "#\tUpdated through IERS Bulletin C",
    "#\tFile expires on:  28 June",
    "#\tOBSERVATOIRE DE PARIS \u{2013} Syst\u{e8}mes de R\u{e9}f\u{e9}rence Temps-Espace",
    "#\tService de la Rotation Terrestre (\u{a9} IERS) \u{2014} d\u{e9}cision du Bureau",
    "#\t\u{394}AT = TAI \u{2212} UTC, \u{3b4}t \u{2264} 0,9 s ; \u{79d2} \u{23f1} \u{1f558}",
    "#  2272060800\t10\t# (an example line inside a comment)",
    "#\t3692217600 37",
    "# 1 Jan 1972 \u{2192} 10 s",
];

#[derive(Clone, Debug, Serialize, Deserialize)]
pub struct Style {
    pub header_lines: usize,
    pub dollar_line: bool,
    pub at_line: bool,
    pub hash_line: bool,
    /// 0 = tab, 1..=4 = that many spaces, 5 = tab+space mix
    pub sep: u8,
    pub trailing_comment: bool,
    pub crlf: bool,
    pub final_newline: bool,
    pub blank_lines: bool,
    pub interleaved_comments: bool,
    pub footer_lines: usize,
    /// Extra comment lines before / after the data block, to make files larger than any
    /// plausible internal buffer (16, 32, 64, 128 KiB).
    #[serde(default)]
    pub bulk_before: usize,
    #[serde(default)]
    pub bulk_after: usize,
    /// Liberties of debatable status (see `Image::strict`).
    #[serde(default)]
    pub indent_data: bool,
    #[serde(default)]
    pub trailing_blanks: bool,
    #[serde(default)]
    pub blank_only_lines: bool,
    #[serde(default)]
    pub indent_comments: bool,
    /// One comment line of this many bytes (0 = none), and/or one data line whose trailing
    /// comment is this long: lines longer than any plausible line buffer.
    #[serde(default)]
    pub long_comment_line: usize,
    #[serde(default)]
    pub long_trailing_comment: usize,
    #[serde(default)]
    pub extra_final_newlines: usize,
    /// LF and CR LF mixed within one file (lenient).
    #[serde(default)]
    pub mixed_endings: bool,
    /// The `#@` expiry stamp predates the newest entries (an unrefreshed header; lenient).
    #[serde(default)]
    pub stale_expiry: bool,
    /// The `#h` hash line stands in the header, before the table, instead of at the end.
    #[serde(default)]
    pub hash_line_first: bool,
    /// Columns separated by non-ASCII Unicode white space (a full-width space from a CJK input
    /// method, a no-break space): lenient.
    #[serde(default)]
    pub unicode_blanks: bool,
    /// ...also between the offset and the trailing comment (a separate image: a loader that
    /// refuses one of the two forms must not hide what it does with the other).
    #[serde(default)]
    pub unicode_before_comment: bool,
    /// What the trailing comment of a data line says (see `render`).
    #[serde(default)]
    pub comment_style: u8,
}

fn sep_str(sep: u8, rng: &mut Rng) -> String {
    match sep {
        0 => "\t".to_string(),
        1..=4 => " ".repeat(sep as usize),
        _ => {
            let n = rng.urange(1, 3);
            (0..n)
                .map(|_| if rng.chance(1, 2) { '\t' } else { ' ' })
                .collect()
        }
    }
}

/// Renders `table` as an IERS-format file. Stays strictly inside what the file's own header
/// describes: comment lines start with '#' in column 1; data lines are
/// `<timestamp><blanks><offset>[<blanks># comment]`; truly empty lines may appear.
pub fn render(table: &[Entry], style: &Style, rng: &mut Rng) -> String {
    let nl = if style.crlf { "\r\n" } else { "\n" };
    let mut lines: Vec<String> = Vec::new();
    for _ in 0..style.header_lines {
        lines.push((*rng.pick(&COMMENTS)).to_string());
    }
    if style.blank_lines && rng.chance(1, 2) {
        lines.push(String::new());
    }
    if style.dollar_line {
        lines.push("#$\t 3676924800".to_string());
        lines.push("#".to_string());
    }
    if style.at_line || style.stale_expiry {
        let last = table.last().map(|e| e.0).unwrap_or(3_692_217_600);
        let stamp = if style.stale_expiry {
            // between the third-to-last and the second-to-last entry (or before the only one)
            let k = table.len().saturating_sub(2);
            table.get(k).map(|e| e.0.saturating_sub(86_400 * 30)).unwrap_or(last)
        } else {
            last + 204_681_600
        };
        lines.push(format!("#@\t{stamp}"));
        lines.push("#".to_string());
    }
    if style.hash_line_first {
        lines.push("#h\t2c413af9 124e1031 f165174 ff527c6b 756ae00b".to_string());
        lines.push("#".to_string());
    }
    if style.blank_lines {
        lines.push(String::new());
    }
    for _ in 0..style.bulk_before {
        lines.push((*rng.pick(&COMMENTS)).to_string());
    }
    let long_at = rng.usize_below(table.len());
    let long_trail_at = rng.usize_below(table.len());
    for (i, &(ts, dat)) in table.iter().enumerate() {
        if style.long_comment_line > 0 && i == long_at {
            let mut l = String::from("#\t");
            while l.len() < style.long_comment_line {
                l.push_str(&rng.pick(&COMMENTS)[1..]);
                l.push(' ');
            }
            lines.push(l);
        }
        let indent = if style.indent_data && rng.chance(1, 3) {
            sep_str(5, rng)
        } else {
            String::new()
        };
        let sep = if style.unicode_blanks && (style.unicode_before_comment || rng.chance(2, 3)) {
            if style.unicode_before_comment {
                (*rng.pick(&["\u{3000}", "\u{a0}", "\u{2003}"])).to_string()
            } else {
                (*rng.pick(&["\u{3000}", "\u{a0}", "\u{2003}", "\u{3000}\t", " \u{a0}\u{a0}"])).to_string()
            }
        } else if style.sep == 6 {
            // tabs expanded the way `expand -t 8` writes them: the offset starts in column 16
            " ".repeat(16usize.saturating_sub(ts.to_string().len()).max(1))
        } else {
            sep_str(style.sep, rng)
        };
        let mut l = format!("{indent}{ts}{sep}{dat}");
        if style.trailing_comment {
            // date of the entry, as in the real file
            let (y, m) = civil_of_ntp(ts);
            if style.unicode_blanks && style.unicode_before_comment {
                // a Unicode blank before the comment as well: no ASCII blank anywhere between
                // the timestamp and the '#'
                l.push_str(*rng.pick(&["\u{a0}", "\u{3000}", "\u{2003}\u{a0}"]));
            } else if style.sep == 6 {
                l.push_str(&" ".repeat(8usize.saturating_sub(dat.to_string().len()).max(1)));
            } else {
                l.push_str(&sep_str(style.sep, rng));
            }
            // Comments are free text: what they say must not matter. By rank the comment names
            // the day the offset takes effect (as IERS does), the day BEFORE (the tzdata convention:
            // the day of the leap second itself), the same day in ISO form, or numbers.
            match style.comment_style {
                1 => {
                    let (py, pm, pd) = crate::refdata::civil_from_days(
                        (ts / 86_400) as i64 - 1 + crate::refdata::days_from_civil(1900, 1, 1),
                    );
                    l.push_str(&format!("# {} {} {}", pd, MONTH_ABBR[(pm - 1) as usize], py));
                }
                2 => l.push_str(&format!("# {y:04}-{m:02}-01T00:00:00Z")),
                3 => l.push_str(&format!("# {} {} (was {})", ts + 86_400, dat as u32 + 1, dat as i32 - 1)),
                _ => l.push_str(&format!("# 1 {} {}", MONTH_ABBR[(m - 1) as usize], y)),
            }
        }
        if style.long_trailing_comment > 0 && i == long_trail_at {
            if !style.trailing_comment {
                l.push_str("\t#");
            }
            while l.len() < style.long_trailing_comment {
                l.push(' ');
                l.push_str(&rng.pick(&COMMENTS)[1..]);
            }
        }
        if style.trailing_blanks && rng.chance(1, 3) {
            l.push_str(&sep_str(5, rng));
        }
        lines.push(l);
        if style.interleaved_comments && rng.chance(1, 4) {
            lines.push((*rng.pick(&COMMENTS)).to_string());
        }
        if style.blank_only_lines && rng.chance(1, 10) {
            lines.push(sep_str(5, rng));
        }
        if style.indent_comments && rng.chance(1, 10) {
            lines.push(format!("{}{}", sep_str(5, rng), rng.pick(&COMMENTS)));
        }
        if style.blank_lines && rng.chance(1, 8) && i + 1 < table.len() {
            lines.push(String::new());
        }
    }
    if style.blank_lines && rng.chance(1, 2) {
        lines.push(String::new());
    }
    for _ in 0..style.footer_lines + style.bulk_after {
        lines.push((*rng.pick(&COMMENTS)).to_string());
    }
    if style.hash_line {
        lines.push("#h\t2c413af9 124e1031 f165174 ff527c6b 756ae00b".to_string());
        lines.push("#".to_string());
    }
    // A file whose last line is empty and that has no final newline would end in a newline
    // anyway; make sure the last line is non-empty so that `final_newline` means what it says.
    while lines.last().map(|l| l.is_empty()).unwrap_or(false) {
        lines.pop();
    }
    let mut out = if style.mixed_endings {
        // every line individually terminated by LF or CR LF
        let mut o = String::new();
        let n = lines.len();
        for (k, l) in lines.iter().enumerate() {
            o.push_str(l);
            if k + 1 < n {
                o.push_str(if rng.chance(1, 2) { "\r\n" } else { "\n" });
            }
        }
        o
    } else {
        lines.join(nl)
    };
    if style.final_newline {
        out.push_str(nl);
        // empty lines are allowed anywhere, also at the very end
        for _ in 0..style.extra_final_newlines {
            out.push_str(nl);
        }
    }
    out
}

fn civil_of_ntp(ts: u64) -> (i64, u32) {
    // Only used to print the trailing comment; scan years (tiny range).
    let mut y = 1900;
    loop {
        if ntp_seconds_of_date(y + 1, 1, 1) > ts {
            break;
        }
        y += 1;
    }
    let mut m = 1;
    while m < 12 && ntp_seconds_of_date(y, m + 1, 1) <= ts {
        m += 1;
    }
    (y, m)
}

pub fn random_style(rng: &mut Rng) -> Style {
    Style {
        header_lines: match rng.below(4) {
            0 => 0,
            1 => rng.urange(1, 4),
            2 => rng.urange(5, 20),
            _ => rng.urange(20, 60),
        },
        dollar_line: rng.chance(1, 2),
        at_line: rng.chance(1, 2),
        hash_line: rng.chance(1, 2),
        sep: rng.below(6) as u8,
        trailing_comment: rng.chance(1, 2),
        crlf: rng.chance(1, 3),
        final_newline: rng.chance(3, 4),
        blank_lines: rng.chance(1, 3),
        interleaved_comments: rng.chance(1, 4),
        footer_lines: if rng.chance(1, 2) { 0 } else { rng.urange(1, 6) },
        bulk_before: 0,
        bulk_after: 0,
        indent_data: false,
        trailing_blanks: false,
        blank_only_lines: false,
        indent_comments: false,
        long_comment_line: 0,
        long_trailing_comment: 0,
        extra_final_newlines: if rng.chance(1, 6) { rng.urange(1, 3) } else { 0 },
        mixed_endings: false,
        stale_expiry: false,
        hash_line_first: false,
        unicode_blanks: false,
        unicode_before_comment: false,
        comment_style: 0,
    }
}

/// A table for a rendered image: a non-empty prefix of the real list, the real list, or the real
/// list plus 1..=3 hypothetical future entries (1 Jan / 1 Jul, offset +-1), all before 2036 so
/// that every timestamp still fits the 32-bit NTP era the format was designed for.
/// The real list followed by an entry every `every` half-years (offset +-1) up to `until`.
fn extended_table(rng: &mut Rng, every: u32, until: i64) -> Vec<Entry> {
    let mut t = real_table();
    let (mut y, mut half, mut dat) = (2017i64, 0u32, 37i32);
    loop {
        let total = half + every;
        y += (total / 2) as i64;
        half = total % 2;
        if y > until {
            break;
        }
        dat += if rng.chance(1, 5) && dat > 30 { -1 } else { 1 };
        t.push((ntp_seconds_of_date(y, if half == 0 { 1 } else { 7 }, 1), dat as u8));
    }
    t
}

/// The real list, then one entry on the first of every month from 2017-02: the offset climbs to
/// 255 s (all a `u8` holds) and comes down again by 60 s. 279 entries after the real 28.
fn huge_table() -> Vec<Entry> {
    let mut t = real_table();
    let (mut y, mut m, mut dat) = (2017i64, 1u32, 37i32);
    let mut push = |dat: i32| {
        m += 1;
        if m > 12 {
            m = 1;
            y += 1;
        }
        t.push((ntp_seconds_of_date(y, m, 1), dat as u8));
    };
    while dat < 255 {
        dat += 1;
        push(dat);
    }
    for _ in 0..60 {
        dat -= 1;
        push(dat);
    }
    t
}

pub fn random_table(rng: &mut Rng) -> (Vec<Entry>, &'static str) {
    let real = real_table();
    match rng.below(10) {
        0..=3 => {
            let n = rng.urange(1, 27);
            (real[..n].to_vec(), "prefix")
        }
        4..=6 => (real, "real"),
        _ => {
            let mut t = real;
            let k = rng.urange(1, 3);
            let mut y = 2017i64;
            let mut half = 0u32; // 0: 1 Jan, 1: 1 Jul of year y
            let mut dat = 37i32;
            for _ in 0..k {
                // advance by 1..=6 half-years
                let adv = rng.urange(1, 6) as u32;
                let total = half + adv;
                y += (total / 2) as i64;
                half = total % 2;
                if y > 2035 {
                    break;
                }
                dat += if rng.chance(1, 4) { -1 } else { 1 };
                // ITU-R TF.460 allows the end of any month, March and September as second
                // preference: one hypothetical entry in three takes effect on 1 Apr / 1 Oct
                let m = match (half, rng.chance(1, 3)) {
                    (0, false) => 1,
                    (0, true) => 4,
                    (_, false) => 7,
                    (_, true) => 10,
                };
                t.push((ntp_seconds_of_date(y, m, 1), dat as u8));
            }
            (t, "future")
        }
    }
}

/// The per-batch image pool: index 0 is the shipped list, the rest are rendered.
pub fn build_pool(shipped_text: String, shipped_table: Vec<Entry>, n_rendered: usize, seed: u64) -> Vec<Image> {
    let mut pool = vec![Image {
        name: "V0".to_string(),
        class: "shipped".to_string(),
        text: shipped_text,
        table: shipped_table,
        strict: true,
        raw: None,
    }];
    let mut rng = Rng::new(seed ^ 0x1AA6_E5EE_D000_0001);
    for i in 0..n_rendered {
        let mut r = rng.fork();
        let (mut table, mut tclass) = random_table(&mut r);
        let mut style = random_style(&mut r);
        let mut far = false;
        let mut zero_bytes = false;
        if i % 8 == 4 {
            // a list that does not start in 1972: the first k entries trimmed away
            let real = real_table();
            let k = 1 + (i / 8) % 20;
            table = real[k..].to_vec();
            tclass = "suffix";
            if (i / 8) % 4 == 1 {
                // ...trimmed to recent history AND newer than the built-in table: a run of rows
                // the built-in table has, followed by rows it lacks
                let ext = extended_table(&mut r, 3, 2030);
                table.extend_from_slice(&ext[real.len()..]);
                tclass = "suffix+future";
            }
            if (i / 8) % 4 == 3 {
                // ...or starts EARLIER than 1972: a timeline with whole-second stand-ins for the
                // 1961-1971 rate offsets, or one that states "0 s from 1900-01-01" explicitly, or
                // one with entries on either side of 1970-01-01 (2 208 988 800 s, where a UNIX
                // count starts). The format does not care; a loader may refuse, not reinterpret.
                let early: Vec<Entry> = match (i / 32) % 3 {
                    0 => vec![
                        (ntp_seconds_of_date(1961, 1, 1), 1),
                        (ntp_seconds_of_date(1964, 1, 1), 3),
                        (ntp_seconds_of_date(1966, 1, 1), 4),
                        (ntp_seconds_of_date(1968, 2, 1), 6),
                        (ntp_seconds_of_date(1970, 1, 1), 8),
                    ],
                    1 => vec![(0, 0)],
                    _ => vec![(2_208_988_799, 5), (2_208_988_800, 6)],
                };
                table = early.into_iter().chain(real.iter().copied()).collect();
                tclass = "early";
            }
        }
        if i % 8 == 2 {
            style.hash_line_first = true;
            style.hash_line = (i / 8) % 2 == 1;
        }
        let stale = i % 16 == 6;
        if stale {
            // newly announced entries appended under a header whose expiry line was not refreshed
            table = extended_table(&mut r, 2, 2031);
            tclass = "future";
            style.stale_expiry = true;
        }
        if i % 16 == 9 {
            // a leap second every half-year until 2035: 65 entries, more than any fixed-size table
            // sized for today's list would hold
            table = extended_table(&mut r, 1, 2035);
            tclass = "densefuture";
        } else if i % 16 == 1 {
            // entries beyond 2036-02-07, whose timestamps no longer fit 32 bits: legitimate for the
            // format, but a loader may refuse them (judged by O1 only)
            let every = r.urange(3, 9) as u32;
            table = extended_table(&mut r, every, 2099);
            tclass = "farfuture";
            far = true;
            match (i / 16) % 6 {
                5 => {
                    // timestamps of every width: five, nine, ten (just) and eleven digits (from
                    // November 2216 on a count of seconds since 1900 no longer fits ten), offsets
                    // of one, two and three digits. The format bounds neither column.
                    table = vec![(86_400, 1), (999_999_999, 2), (1_000_000_000, 3)];
                    table.extend(real_table());
                    table.push((ntp_seconds_of_date(2217, 1, 1), 99));
                    table.push((ntp_seconds_of_date(2300, 7, 1), 100));
                    table.push((ntp_seconds_of_date(2301, 1, 1), 101));
                    tclass = "digitwidths";
                }
                4 => {
                    // a long pause (the 2022 CGPM resolution suspends leap seconds): the next
                    // entry comes more than 2^31 s (68 years) after its predecessor
                    table = real_table();
                    table.push((ntp_seconds_of_date(2087, 1, 1), 38));
                    table.push((ntp_seconds_of_date(2090, 7, 1), 39));
                    tclass = "longpause";
                }
                1 => {
                    // a list without a single entry (comments only): nothing is in force, ever
                    table = Vec::new();
                    tclass = "emptytable";
                }
                2 => {
                    // a file of zero bytes
                    table = Vec::new();
                    tclass = "zerobytes";
                    zero_bytes = true;
                }
                3 => {
                    // far more entries than anything sized after today's list holds, and offsets
                    // past 127: one entry a month, up to 255 s and down again
                    table = huge_table();
                    tclass = "hugetable";
                }
                _ => {}
            }
        }
        // One image in eight is large: comment bulk (average line about 50 bytes) sized to cross
        // 16, 32, 64 or 128 KiB, placed before the data, after it, or split around it.
        let mut big = "";
        if i % 8 == 7 {
            // systematic, not drawn: the first 12 large images cover 4 sizes x 3 placements
            let k = i / 8;
            let target_lines = [340usize, 700, 1400, 2800][k % 4];
            match (k / 4) % 3 {
                0 => style.bulk_before = target_lines,
                1 => style.bulk_after = target_lines,
                _ => {
                    style.bulk_before = target_lines / 2;
                    style.bulk_after = target_lines / 2;
                }
            }
            big = "+big";
        }
        // One image in eight takes liberties of debatable status; those are judged by O1 only.
        // Sizes and shapes a careful loader might *refuse* (a sanity limit on file size, line
        // length or entry count; a check that the list starts in 1972) are judged by O1 only: a
        // refusal is not a wrong answer, a silently truncated table is.
        let oversized = i % 8 == 7 && [340usize, 700, 1400, 2800][(i / 8) % 4] >= 1400;
        let mut strict = !far && !stale && !oversized && tclass != "densefuture" && !tclass.starts_with("suffix") && tclass != "early";
        if i % 8 == 3 {
            // systematic: which liberties a lenient image takes depends on its rank, not on a draw
            let k = i / 8;
            strict = false;
            style.indent_data = true;
            style.trailing_blanks = k % 2 == 1;
            // the next two make today's loader refuse the file (which is acceptable): keep most
            // lenient images loadable so that O1 has something to judge
            style.blank_only_lines = k % 4 == 2;
            style.indent_comments = k % 8 == 5;
            style.mixed_endings = k % 3 == 1;
            style.unicode_blanks = k % 8 == 4 || (k % 8 == 0 && k > 0);
            if k % 8 == 0 && k > 0 {
                // Unicode blanks only, also before the comment, on every data line, no indentation
                style.unicode_before_comment = true;
                style.indent_data = false;
                style.trailing_blanks = false;
                style.mixed_endings = false;
            }
            if style.unicode_blanks {
                // the comment follows the offset after a single tab: a loader that measures the
                // line in characters but cuts it in bytes then cuts into the offset
                style.trailing_comment = true;
                style.sep = 0;
            }
        }
        if i % 16 == 14 {
            // a copy whose tabs were expanded to spaces (`expand -t 8`): ten digits, six spaces,
            // the offset in column 16, the comment in column 24 — where, in the tab-separated
            // original, the day of the month of the trailing comment stands (M214)
            style.sep = 6;
            style.trailing_comment = true;
        }
        if i % 16 == 13 {
            // the last line of the file is a data line without a line terminator
            style.final_newline = false;
            style.hash_line = false;
            style.footer_lines = 0;
            style.bulk_after = 0;
            style.blank_lines = false;
            style.crlf = (i / 16) % 2 == 1;
        }
        if i % 16 == 11 {
            // (see below) a stray byte must be able to land in the trailing comment of a data line
            style.trailing_comment = true;
        }
        // Long lines: comments are free text, nothing bounds their length. About 1 KB is judged
        // strictly; beyond that a loader may refuse (a line-length limit), but not truncate silently.
        let mut long = "";
        if i % 8 == 5 {
            // systematic: the first 12 long-line images cover 6 lengths x {comment line, trailing}
            let k = i / 8;
            let n = [1100usize, 4200, 8300, 9900, 17_000, 70_000][k % 6];
            match (k / 6) % 3 {
                0 => style.long_comment_line = n,
                1 => style.long_trailing_comment = n,
                _ => {
                    style.long_comment_line = n;
                    style.long_trailing_comment = n / 2;
                }
            }
            if n > 2_000 {
                strict = false;
            }
            long = "+longline";
        }
        // Every file IERS publishes carries the `#$` (last update), `#@` (expiry) and `#h` (hash)
        // special comments; a file without them is judged leniently (a loader may insist on them).
        // Three images in four carry all three, by rank.
        if i % 4 != 1 {
            style.dollar_line = true;
            style.at_line = true;
            if !style.hash_line_first {
                style.hash_line = true;
            }
        }
        if i % 16 == 13 {
            style.hash_line = false; // the unterminated-last-data-line class ends in a data line
            style.hash_line_first = true;
        }
        if !(style.dollar_line && (style.at_line || style.stale_expiry) && (style.hash_line || style.hash_line_first)) {
            strict = false;
        }
        // By rank, not drawn. The file's own header says that the comment on each data line
        // "shows the representation of the corresponding initial epoch in the usual
        // day-month-year format": a comment that names another day, or takes another form, is a
        // liberty, and a self-validating loader may refuse such a file (REF121). It is the one
        // liberty these images take (nothing else uses rank 0 mod 8): judged by O1 only — a
        // refusal is not a wrong answer, a table moved to the day the comment names is.
        if i % 8 == 0 {
            style.comment_style = 1 + ((i / 8) % 3) as u8;
            style.trailing_comment = true;
            strict = false;
        }
        let text = render(&table, &style, &mut r);
        let mut text = text;
        if zero_bytes {
            text.clear();
        }
        let mut odd = "";
        if i % 16 == 3 {
            // leading zeros in the offset column of some lines; a UTF-8 byte order mark in front
            // of a first comment line (both lenient: `strict` is already false for i % 8 == 3)
            let mut out = String::with_capacity(text.len() + 16);
            for (k, line) in text.split_inclusive('\n').enumerate() {
                let blank = |c: char| c.is_whitespace() && c != '\n' && c != '\r';
                let is_data = line.trim_start_matches(blank).bytes().next().map(|b| b.is_ascii_digit()).unwrap_or(false);
                if is_data && k % 3 == 0 {
                    // "<blanks?><ts><blanks><dat>..." -> zero-pad dat
                    let lead = line.len() - line.trim_start_matches(blank).len();
                    let body = &line[lead..];
                    let ts_end = body.find(blank).unwrap_or(body.len());
                    let rest = &body[ts_end..];
                    let gap = rest.len() - rest.trim_start_matches(blank).len();
                    out.push_str(&line[..lead + ts_end + gap]);
                    out.push_str("00");
                    out.push_str(&rest[gap..]);
                } else {
                    out.push_str(line);
                }
            }
            text = out;
            // by rank, so that some zero-padded, indented images stay loadable by a loader that
            // refuses a byte order mark (today's does)
            if text.starts_with('#') && (i / 16) % 2 == 1 {
                text.insert(0, '\u{feff}');
            }
            // ...or in front of a DATA line: a list stripped of its header comments and re-saved
            // by an editor that adds a mark (a loader that skips "the marked first line, the
            // header comment" drops the first row: seeded change M232)
            // (rank 3 only: the one image of this class that takes no other liberty a loader
            // might refuse — a refusal must not hide what the loader does with this one)
            if i == 3 {
                let mut at = 0;
                for line in text.split_inclusive('\n') {
                    if line.trim_start().bytes().next().map(|b| b.is_ascii_digit()).unwrap_or(false) {
                        break;
                    }
                    at += line.len();
                }
                if at < text.len() {
                    text = text[at..].trim_start().to_string();
                    text.insert(0, '\u{feff}');
                }
            }
            odd = "+zeros";
        }
        // Stray non-UTF-8 bytes in comments (a Latin-1 header, say): today's loader refuses such a
        // file, which is fine; a loader that accepts it must still produce the file's table.
        let mut raw = None;
        let mut nonutf8 = "";
        if i % 16 == 11 {
            let mut b = text.clone().into_bytes();
            let hashes: Vec<usize> = (0..b.len()).filter(|&k| b[k] == b'#').collect();
            // '#' that are not the first byte of their line: trailing comments of data lines
            let trailing: Vec<usize> = hashes
                .iter()
                .copied()
                .filter(|&k| k > 0 && b[k - 1] != b'\n' && {
                    let ls = b[..k].iter().rposition(|&c| c == b'\n').map(|p| p + 1).unwrap_or(0);
                    b[ls].is_ascii_digit()
                })
                .collect();
            if !hashes.is_empty() {
                let mut spots: Vec<usize> = Vec::new();
                if !trailing.is_empty() {
                    spots.push(*r.pick(&trailing) + 1); // always one in a data line's comment
                }
                if (i / 16) % 2 == 1 {
                    spots.push(*r.pick(&hashes) + 1);
                }
                // ...and one as the LAST byte of a data line's comment where the next line is a data
                // line too, a byte that looks like the lead of a multi-byte sequence (Latin-1 'é',
                // 'Ã', 'ð'): a lossy decoder that skips "the rest of the sequence" swallows the line
                // feed and the next row with it (seeded change M223)
                let eol: Vec<usize> = (1..b.len().saturating_sub(1))
                    .filter(|&k| {
                        b[k] == b'\n' && b[k + 1].is_ascii_digit() && {
                            let ls = b[..k].iter().rposition(|&c| c == b'\n').map(|p| p + 1).unwrap_or(0);
                            b[ls].is_ascii_digit() && b[ls..k].contains(&b'#')
                        }
                    })
                    .map(|k| if b[k - 1] == b'\r' { k - 1 } else { k })
                    .collect();
                let eol_spot = if eol.is_empty() { None } else { Some(eol[(i / 16) % eol.len()]) };
                if let Some(at) = eol_spot {
                    spots.retain(|&s| s != at);
                }
                spots.sort_unstable();
                spots.dedup();
                let mut all: Vec<(usize, u8)> = spots.iter().map(|&at| (at, *r.pick(&[0xE9u8, 0xFF, 0xC3, 0xA0]))).collect();
                if let Some(at) = eol_spot {
                    all.push((at, [0xE9u8, 0xC3, 0xF0, 0xC3][(i / 16) % 4]));
                }
                all.sort_unstable();
                for &(at, byte) in all.iter().rev() {
                    b.insert(at, byte);
                }
                // positions shifted by earlier insertions still follow a '#' or a comment byte
                if std::str::from_utf8(&b).is_err() {
                    raw = Some(b);
                    strict = false;
                    nonutf8 = "+nonutf8";
                }
            }
        }
        let class = format!(
            "{tclass}{}{}{big}{long}{nonutf8}{odd}{}{}",
            if style.crlf { "+crlf" } else { "" },
            if style.final_newline { "" } else { "+nofinalnl" },
            if style.stale_expiry { "+staleexpiry" } else { "" },
            if strict { "" } else { "+lenient" }
        );
        pool.push(Image {
            name: format!("R{}", i + 1),
            class,
            text,
            table,
            strict,
            raw,
        });
    }
    pool
}

#[cfg(test)]
mod tests {
    use super::*;
    use crate::refdata::parse_iers_reference;

    #[test]
    fn rendered_images_denote_their_table() {
        // The renderer and the reference reader are two independent descriptions of the format.
        let pool = build_pool(String::from("1 2\n"), vec![(1, 2)], 500, 7);
        for img in &pool {
            let t = parse_iers_reference(img.bytes()).unwrap();
            assert_eq!(t, img.table, "{}", img.name);
        }
    }

    #[test]
    fn classify_examples() {
        let text = "#\tx\u{e9}\r\n2272060800\t10\t# c\r\n";
        let b = text.as_bytes();
        let ix = ImageIndex::new(b);
        assert_eq!(ix.classify(b, 0), OffClass::Start);
        assert_eq!(ix.classify(b, 4), OffClass::CommentMb);
        assert_eq!(ix.classify(b, 5), OffClass::Cr);
        assert_eq!(ix.classify(b, 6), OffClass::Lf);
        assert_eq!(ix.classify(b, 7), OffClass::DataLineStart);
        assert_eq!(ix.classify(b, 8), OffClass::TsDigits);
        assert_eq!(ix.classify(b, 17), OffClass::ColGap);
        assert_eq!(ix.classify(b, 18), OffClass::DatDigits);
        assert_eq!(ix.classify(b, 20), OffClass::DataTail);
        assert_eq!(ix.classify(b, b.len()), OffClass::Eof);
    }
}
