//! Cooperative scheduler for the concurrent-loaders stratum.
//!
//! Client threads are real OS threads, but only the thread that holds the *turn* runs; every
//! seam point (each `open` and each `read` behind `LeapSecondsFile::from_path`) is a yield
//! point at which a seeded PRNG decides who runs next. One seed is therefore one interleaving
//! of the loads at read granularity, and it replays exactly.
//!
//! The code under test may block on a lock that a parked thread holds (a loader that keeps a
//! `Mutex` locked across reads serialises its callers, which is legitimate). The scheduler cannot
//! intercept such a lock, but it can see its effect: the turn holder is asleep in the kernel
//! (`/proc/self/task/<tid>/stat` state `S`) although turn holders never sleep voluntarily. When
//! `ASLEEP_POLLS` consecutive polls `POLL` apart find it asleep without progress, the lowest-numbered
//! parked thread takes the turn over ("steal") and the sleeper is not chosen again until it shows
//! up at a yield point. Where /proc cannot be read the fallback is `STALL` without progress.
//! Steals are counted and reported; they never affect an oracle, only who runs.

use crate::prng::{Fnv, Rng};
use std::sync::{Condvar, Mutex};
use std::time::Duration;

const POLL: Duration = Duration::from_micros(500);
const ASLEEP_POLLS: u32 = 12; // 6 ms asleep without progress
const STALL: Duration = Duration::from_millis(100);

/// OS thread id of the calling thread, from /proc (no libc dependency).
fn current_tid() -> Option<u32> {
    let l = std::fs::read_link("/proc/thread-self").ok()?;
    l.file_name()?.to_str()?.parse().ok()
}

/// Scheduling state letter of a thread of this process (R running/runnable, S sleeping, ...).
fn thread_state(tid: u32) -> Option<u8> {
    let s = std::fs::read_to_string(format!("/proc/self/task/{tid}/stat")).ok()?;
    // "<tid> (<comm>) <state> ..." — comm may contain spaces and parentheses: take the last ')'.
    let i = s.rfind(')')?;
    s.as_bytes().get(i + 2).copied()
}

#[derive(Clone, Copy, PartialEq, Eq, Debug)]
enum St {
    Alive,
    Finished,
}

struct Sched {
    turn: usize,
    st: Vec<St>,
    waiting: Vec<bool>,
    /// Believed to be blocked on something a parked thread holds; not chosen until it yields.
    suspect: Vec<bool>,
    tids: Vec<Option<u32>>,
    rng: Rng,
    switch_den: u64,
    progress: u64,
    pub yields: u64,
    pub switches: u64,
    pub steals: u64,
    trace: Fnv,
}

pub struct Scheduler {
    m: Mutex<Sched>,
    cv: Condvar,
}

#[derive(Clone, Copy, Debug, Default)]
pub struct SchedStats {
    pub yields: u64,
    pub switches: u64,
    pub steals: u64,
    pub trace_hash: u64,
}

impl Scheduler {
    /// `switch_den`: at a yield point the turn moves to a uniformly chosen live thread with
    /// probability 1/switch_den (1 = at every yield point).
    pub fn new(n: usize, seed: u64, switch_den: u64) -> Scheduler {
        let mut rng = Rng::new(seed);
        let turn = rng.usize_below(n.max(1));
        Scheduler {
            m: Mutex::new(Sched {
                turn,
                st: vec![St::Alive; n],
                waiting: vec![false; n],
                suspect: vec![false; n],
                tids: vec![None; n],
                rng,
                switch_den: switch_den.max(1),
                progress: 0,
                yields: 0,
                switches: 0,
                steals: 0,
                trace: Fnv::default(),
            }),
            cv: Condvar::new(),
        }
    }

    fn wait_for_turn<'a>(
        &'a self,
        mut g: std::sync::MutexGuard<'a, Sched>,
        me: usize,
    ) -> std::sync::MutexGuard<'a, Sched> {
        g.waiting[me] = true;
        let mut asleep_polls = 0u32;
        let mut idle = Duration::ZERO;
        let mut seen = g.progress;
        loop {
            if g.turn == me {
                break;
            }
            let (g2, to) = self.cv.wait_timeout(g, POLL).unwrap();
            g = g2;
            if g.turn == me {
                break;
            }
            if g.progress != seen {
                seen = g.progress;
                asleep_polls = 0;
                idle = Duration::ZERO;
                continue;
            }
            if !to.timed_out() {
                continue;
            }
            idle += POLL;
            let holder = g.turn;
            let blocked = match g.tids[holder].and_then(thread_state) {
                Some(b'S') => {
                    asleep_polls += 1;
                    asleep_polls >= ASLEEP_POLLS
                }
                Some(_) => {
                    asleep_polls = 0;
                    false
                }
                None => idle >= STALL,
            };
            if blocked {
                let first_waiting =
                    (0..g.waiting.len()).find(|&i| g.waiting[i] && g.st[i] == St::Alive);
                if first_waiting == Some(me) {
                    g.suspect[holder] = true;
                    g.turn = me;
                    g.steals += 1;
                    g.progress += 1;
                    g.trace.byte(0xEE);
                    g.trace.byte(me as u8);
                    self.cv.notify_all();
                    break;
                }
                asleep_polls = 0;
                idle = Duration::ZERO;
            }
        }
        g.waiting[me] = false;
        g
    }

    /// First thing a client thread does.
    pub fn start(&self, me: usize) {
        let tid = current_tid();
        let mut g = self.m.lock().unwrap();
        g.tids[me] = tid;
        let _g = self.wait_for_turn(g, me);
    }

    fn choose(g: &mut Sched, me: usize, include_me: bool) -> Option<usize> {
        let cands: Vec<usize> = (0..g.st.len())
            .filter(|&i| g.st[i] == St::Alive && !g.suspect[i] && (include_me || i != me))
            .collect();
        if cands.is_empty() {
            // only suspects are left: let the first of them have the turn, it will run when it can
            return (0..g.st.len()).find(|&i| g.st[i] == St::Alive && (include_me || i != me));
        }
        let k = g.rng.usize_below(cands.len());
        Some(cands[k])
    }

    /// Called at every seam point by the running thread.
    pub fn yield_point(&self, me: usize) {
        let mut g = self.m.lock().unwrap();
        g.yields += 1;
        g.progress += 1;
        g.suspect[me] = false;
        if g.turn == me {
            let den = g.switch_den;
            if g.rng.chance(1, den) {
                let next = Self::choose(&mut g, me, true).unwrap_or(me);
                if next != me {
                    g.switches += 1;
                    g.turn = next;
                    g.trace.byte(next as u8);
                    self.cv.notify_all();
                }
            }
        }
        // Either the turn moved away, or it had been taken from this thread while it was blocked.
        if g.turn != me {
            let _g = self.wait_for_turn(g, me);
        }
    }

    /// Last thing a client thread does (also on unwind).
    pub fn finish(&self, me: usize) {
        let mut g = self.m.lock().unwrap();
        g.st[me] = St::Finished;
        g.suspect[me] = false;
        g.progress += 1;
        if g.turn == me {
            if let Some(next) = Self::choose(&mut g, me, false) {
                g.turn = next;
                g.trace.byte(next as u8);
            }
        }
        self.cv.notify_all();
    }

    pub fn stats(&self) -> SchedStats {
        let g = self.m.lock().unwrap();
        SchedStats {
            yields: g.yields,
            switches: g.switches,
            steals: g.steals,
            trace_hash: g.trace.0,
        }
    }
}

/// Calls `finish` when dropped, so that a panicking client thread never strands the others.
pub struct FinishGuard<'a>(pub &'a Scheduler, pub usize);

impl Drop for FinishGuard<'_> {
    fn drop(&mut self) {
        self.0.finish(self.1);
    }
}
