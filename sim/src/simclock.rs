//! The monotonic clock as a seam: elapsed time is simulated for the code under test.
//!
//! Nothing in hifitime measures elapsed time today, but a change can make the loader do so (a
//! read budget, a deadline, a back-off: seeded change M205 returns the rows "received so far"
//! once a load has taken more than a second). `std::time::Instant` reaches the kernel through
//! the C library's `clock_gettime`; std is linked statically into this executable, so a
//! definition of that symbol *in the executable* is what std's reference binds to. The definition
//! below asks the kernel (raw system call) and, for the monotonic clocks, adds this thread's
//! simulated offset — but only while the thread is inside the code under test
//! (`enter_loader`) and not inside a seam callback of the harness (`HarnessScope`): the harness's
//! own timing (scheduler polls, batch statistics, time limits) always sees real time.
//!
//! A *stall* (scenario.rs, `Plan::stalls`) is a read during which `ms` milliseconds of
//! simulated time pass: the offset advances, no real time is spent. Simulated time therefore
//! costs nothing, and a run's outcome depends on it only through differences that are either
//! microseconds (real) or at least a millisecond up to thirty days (simulated).
//!
//! On a platform where the definition below is not compiled, or where std does not go through
//! it, `works()` reports false, stalls do nothing, and the evidence says so.

use std::cell::Cell;

thread_local! {
    static IN_LOADER: Cell<u32> = const { Cell::new(0) };
    static IN_HARNESS: Cell<u32> = const { Cell::new(0) };
    static MONO_OFFSET_NS: Cell<u64> = const { Cell::new(0) };
    static MONO_READS: Cell<u64> = const { Cell::new(0) };
}

/// Marks the calling thread as executing the code under test until dropped.
pub struct LoaderScope;
pub fn enter_loader() -> LoaderScope {
    IN_LOADER.with(|c| c.set(c.get() + 1));
    LoaderScope
}
impl Drop for LoaderScope {
    fn drop(&mut self) {
        IN_LOADER.with(|c| c.set(c.get().saturating_sub(1)));
    }
}

/// Marks the calling thread as executing harness code (a seam callback) until dropped.
pub struct HarnessScope;
pub fn enter_harness() -> HarnessScope {
    IN_HARNESS.with(|c| c.set(c.get() + 1));
    HarnessScope
}
impl Drop for HarnessScope {
    fn drop(&mut self) {
        IN_HARNESS.with(|c| c.set(c.get().saturating_sub(1)));
    }
}

/// `ms` milliseconds of simulated time pass on this thread.
pub fn advance_ms(ms: u64) {
    MONO_OFFSET_NS.with(|c| c.set(c.get().saturating_add(ms.saturating_mul(1_000_000))));
}

/// This thread's simulated offset (a thread started on behalf of a client inherits it).
pub fn offset_ns() -> u64 {
    MONO_OFFSET_NS.with(|c| c.get())
}
pub fn set_offset_ns(ns: u64) {
    MONO_OFFSET_NS.with(|c| c.set(ns));
}

/// How often the code under test read a monotonic clock on this thread since the last call.
pub fn take_mono_reads() -> u64 {
    MONO_READS.with(|c| c.replace(0))
}

/// Self-test: does `Instant` see simulated time on this thread?
pub fn works() -> bool {
    let _h = enter_loader();
    let t0 = std::time::Instant::now();
    advance_ms(3_600_000);
    let seen = t0.elapsed() >= std::time::Duration::from_secs(3_599);
    let _ = take_mono_reads();
    seen
}

#[cfg(all(target_os = "linux", target_arch = "x86_64"))]
mod interpose {
    use super::*;

    #[repr(C)]
    pub struct Timespec {
        tv_sec: i64,
        tv_nsec: i64,
    }

    extern "C" {
        fn syscall(num: i64, ...) -> i64;
    }

    const SYS_CLOCK_GETTIME: i64 = 228;
    const CLOCK_MONOTONIC: i32 = 1;
    const CLOCK_MONOTONIC_RAW: i32 = 4;
    const CLOCK_MONOTONIC_COARSE: i32 = 6;
    const CLOCK_BOOTTIME: i32 = 7;

    /// # Safety
    /// Same contract as the C library's `clock_gettime`.
    #[no_mangle]
    pub unsafe extern "C" fn clock_gettime(clk: i32, ts: *mut Timespec) -> i32 {
        let r = syscall(SYS_CLOCK_GETTIME, clk as i64, ts);
        if r != 0 || ts.is_null() {
            return r as i32;
        }
        if matches!(clk, CLOCK_MONOTONIC | CLOCK_MONOTONIC_RAW | CLOCK_MONOTONIC_COARSE | CLOCK_BOOTTIME) {
            // `try_with`: the thread may be past the point where thread-locals can be reached
            let simulated = IN_LOADER
                .try_with(|l| l.get() > 0)
                .unwrap_or(false)
                && IN_HARNESS.try_with(|h| h.get() == 0).unwrap_or(false);
            if simulated {
                let _ = MONO_READS.try_with(|c| c.set(c.get() + 1));
                let off = MONO_OFFSET_NS.try_with(|c| c.get()).unwrap_or(0);
                let t = &mut *ts;
                let total = t.tv_nsec as u64 + off % 1_000_000_000;
                t.tv_sec = t.tv_sec.saturating_add((off / 1_000_000_000) as i64 + (total / 1_000_000_000) as i64);
                t.tv_nsec = (total % 1_000_000_000) as i64;
            }
        }
        0
    }
}
