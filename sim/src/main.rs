//! Deterministic simulation of hifitime's leap-second file provider (property C06, clause 1).
//! See /verif/DESIGN.md section 3.
//!
//! Exit codes: 0 = property held on everything explored; 1 = violation (a line
//! `VIOLATION property=C06 replay=<path>` is printed); 2 = harness error (never a verdict).

mod audit;
mod conc;
mod exec;
mod image;
mod oracle;
mod prng;
mod refdata;
mod scenario;
mod shrink;
mod simclock;

use exec::{Counters, HarnessError, PoolCtx, RealDisk, Sim, Violation, C, COUNTER_NAMES, OFFCLASS_NAMES};
use image::Image;
use scenario::Scenario;
use serde::{Deserialize, Serialize};
use serde_json::{json, Value};
use std::collections::{BTreeMap, BTreeSet};
use std::path::{Path, PathBuf};
use std::sync::atomic::{AtomicU64, Ordering};
use std::sync::{Arc, Mutex};
use std::time::Instant;

const DEFAULT_SEED: u64 = 20_260_926;
const PROPERTY: &str = "C06";
const BLOCK: u64 = 4096;

#[derive(Serialize, Deserialize)]
struct ReplayFile {
    property: String,
    oracle: String,
    message: String,
    base_seed: u64,
    run_index: u64,
    original_ops: usize,
    shrink_executions: usize,
    /// The images the scenario refers to (indices in `scenario` point into this list).
    pool: Vec<Image>,
    scenario: Scenario,
    /// The scenario's first operation must be the FIRST thing the process ever asks of the
    /// library (no calibration load before it): whatever a loader learns once, from the first
    /// file it sees, it learns from this scenario's first file.
    #[serde(default)]
    first_in_process: bool,
}

struct Args {
    cmd: String,
    tier: String,
    seed: u64,
    runs: Option<u64>,
    workers: usize,
    pool: Option<usize>,
    hashes: Option<PathBuf>,
    evidence: Option<PathBuf>,
    replay: Option<PathBuf>,
    det_pairs: u64,
    miri_seeds: u64,
    miri_violations: u64,
    verbose: bool,
}

fn env_path(name: &str, default: &str) -> PathBuf {
    let p = std::env::var_os(name)
        .map(PathBuf::from)
        .unwrap_or_else(|| PathBuf::from(default));
    // absolute, whatever happens to the working directory later (relative-path runs move it)
    if p.is_relative() {
        if let Some(start) = START_DIR.get() {
            return start.join(p);
        }
    }
    p
}

static START_DIR: std::sync::OnceLock<PathBuf> = std::sync::OnceLock::new();

fn parse_args() -> Result<Args, String> {
    let mut a = Args {
        cmd: String::new(),
        tier: std::env::var("VERIF_TIER").unwrap_or_else(|_| "quick".into()),
        seed: std::env::var("VERIF_SEED")
            .ok()
            .and_then(|s| s.trim().parse::<u64>().ok())
            .unwrap_or(DEFAULT_SEED),
        runs: None,
        workers: std::thread::available_parallelism().map(|n| n.get()).unwrap_or(4).min(16),
        pool: None,
        hashes: None,
        evidence: None,
        replay: None,
        det_pairs: 0,
        miri_seeds: 0,
        miri_violations: 0,
        verbose: false,
    };
    let mut it = std::env::args().skip(1);
    a.cmd = it.next().ok_or("usage: sim run|replay|audit ...")?;
    while let Some(x) = it.next() {
        let mut val = |name: &str| it.next().ok_or(format!("{name} needs a value"));
        match x.as_str() {
            "--tier" => a.tier = val("--tier")?,
            "--seed" => a.seed = val("--seed")?.parse().map_err(|e| format!("--seed: {e}"))?,
            "--runs" => a.runs = Some(val("--runs")?.parse().map_err(|e| format!("--runs: {e}"))?),
            "--workers" => a.workers = val("--workers")?.parse().map_err(|e| format!("--workers: {e}"))?,
            "--pool" => a.pool = Some(val("--pool")?.parse().map_err(|e| format!("--pool: {e}"))?),
            "--hashes" => a.hashes = Some(PathBuf::from(val("--hashes")?)),
            "--evidence" => a.evidence = Some(PathBuf::from(val("--evidence")?)),
            "--det-pairs" => a.det_pairs = val("--det-pairs")?.parse().map_err(|e| format!("--det-pairs: {e}"))?,
            "--miri-seeds" => a.miri_seeds = val("--miri-seeds")?.parse().map_err(|e| format!("--miri-seeds: {e}"))?,
            "--miri-violations" => a.miri_violations = val("--miri-violations")?.parse().map_err(|e| format!("--miri-violations: {e}"))?,
            "--verbose" => a.verbose = true,
            other if a.cmd == "replay" && a.replay.is_none() => a.replay = Some(PathBuf::from(other)),
            _ if a.cmd == "cmp-hashes" || a.cmd == "evidence-add-miri" => {}
            other => return Err(format!("unknown argument {other}")),
        }
    }
    if a.tier != "quick" && a.tier != "thorough" {
        return Err(format!("unknown tier {}", a.tier));
    }
    Ok(a)
}

fn harness_error(msg: &str) -> ! {
    // best-effort removal of this process's scratch directory (exit skips destructors)
    let root = env_path("VERIF_SIMDISK", "/verif/sim/target/simdisk").join(format!("p{}", std::process::id()));
    let _ = std::fs::remove_dir_all(root);
    println!("HARNESS-ERROR {msg}");
    eprintln!("HARNESS-ERROR {msg}");
    std::process::exit(2);
}

struct Shipped {
    pool: Vec<Image>,
    naif: Vec<refdata::Entry>,
}

/// Reads the two shipped data files from the working tree (never embedded) and builds the pool.
fn load_shipped(repo: &Path, n_rendered: usize, seed: u64) -> Result<Shipped, Violation> {
    let list_path = repo.join("data/leap-seconds.list");
    let naif_path = repo.join("naif0012.txt");
    let list = std::fs::read(&list_path)
        .unwrap_or_else(|e| harness_error(&format!("cannot read {}: {e}", list_path.display())));
    let naif_text = std::fs::read_to_string(&naif_path)
        .unwrap_or_else(|e| harness_error(&format!("cannot read {}: {e}", naif_path.display())));
    let o5 = |m: String| Violation {
        oracle: "O5".into(),
        op_index: 0,
        message: m,
    };
    let table = refdata::parse_iers_reference(&list)
        .map_err(|e| o5(format!("shipped data/leap-seconds.list is not a well-formed IERS list: {e}")))?;
    let naif = refdata::parse_naif_reference(&naif_text)
        .map_err(|e| o5(format!("shipped naif0012.txt has no readable DELTET/DELTA_AT: {e}")))?;
    let text = String::from_utf8(list).map_err(|e| o5(format!("shipped list is not UTF-8: {e}")))?;
    let pool = image::build_pool(text, table, n_rendered, seed);
    // Harness self-check: every rendered image denotes its table under the reference reader.
    for img in pool.iter().skip(1) {
        match refdata::parse_iers_reference(img.bytes()) {
            Ok(t) if t == img.table => {}
            other => harness_error(&format!(
                "renderer and reference reader disagree on image {}: {other:?}",
                img.name
            )),
        }
    }
    Ok(Shipped { pool, naif })
}

struct RealDirs {
    root: PathBuf,
    pool_dir: PathBuf,
}

fn make_real_dirs(pool: &[Image]) -> RealDirs {
    let base = env_path("VERIF_SIMDISK", "/verif/sim/target/simdisk");
    // Remove what processes that no longer exist left behind (exit() skips destructors).
    if let Ok(rd) = std::fs::read_dir(&base) {
        for e in rd.flatten() {
            let name = e.file_name().to_string_lossy().to_string();
            if let Some(pid) = name.strip_prefix('p').and_then(|p| p.parse::<u32>().ok()) {
                if !Path::new(&format!("/proc/{pid}")).exists() {
                    let _ = std::fs::remove_dir_all(e.path());
                }
            }
        }
    }
    let root = base.join(format!("p{}", std::process::id()));
    let pool_dir = root.join("pool");
    let _ = std::fs::remove_dir_all(&root);
    std::fs::create_dir_all(&pool_dir)
        .unwrap_or_else(|e| harness_error(&format!("create {}: {e}", pool_dir.display())));
    std::fs::write(pool_dir.join("empty.list"), b"")
        .unwrap_or_else(|e| harness_error(&format!("write empty.list: {e}")));
    for (i, img) in pool.iter().enumerate() {
        let p = RealDisk::pool_file(&pool_dir, i);
        std::fs::write(&p, img.bytes())
            .unwrap_or_else(|e| harness_error(&format!("write {}: {e}", p.display())));
    }
    RealDirs { root, pool_dir }
}

impl Drop for RealDirs {
    fn drop(&mut self) {
        let _ = std::fs::remove_dir_all(&self.root);
    }
}

fn new_sim(ctx: &Arc<PoolCtx>, dirs: &RealDirs, name: &str) -> Sim {
    let rd = RealDisk::new(&dirs.root.join(name), &dirs.pool_dir)
        .unwrap_or_else(|e| harness_error(&e.0));
    Sim::new(ctx.clone(), Some(rd))
}

#[derive(Default)]
struct WorkerOut {
    counters: Option<Counters>,
    signatures: BTreeSet<u64>,
    violations: Vec<(u64, Violation)>,
    hashes: Vec<(u64, u64, u64)>,
    combined: u64,
    interleavings: BTreeSet<(u32, u32, u32)>,
    v0_bits: Vec<u64>,
    sample_idx: BTreeMap<String, u64>,
    model_probes: u64,
    diff_probes: u64,
    harness_error: Option<String>,
}

fn known_findings(verif: &Path) -> Vec<(String, String, String)> {
    // lines: `finding: property=C06 oracle=O4 match=<substring> :: description`
    let mut out = Vec::new();
    if let Ok(text) = std::fs::read_to_string(verif.join("known_findings.txt")) {
        for line in text.lines() {
            let line = line.trim();
            if let Some(rest) = line.strip_prefix("finding:") {
                let (spec, desc) = rest.split_once("::").unwrap_or((rest, ""));
                let mut prop = "";
                let mut oracle = "";
                let mut m = "";
                // match= takes the rest of the spec (it may contain spaces)
                if let Some(i) = spec.find("match=") {
                    m = spec[i + 6..].trim();
                }
                for tok in spec.split_whitespace() {
                    if let Some(v) = tok.strip_prefix("property=") {
                        prop = v;
                    }
                    if let Some(v) = tok.strip_prefix("oracle=") {
                        oracle = v;
                    }
                }
                if prop == PROPERTY && !m.is_empty() {
                    out.push((oracle.to_string(), m.to_string(), desc.trim().to_string()));
                }
            }
        }
    }
    out
}

/// Which characterised findings (`finding: property=C06 id=KF1 :: ...`) the committed file lists.
fn known_ids(verif: &Path) -> oracle::Known {
    let mut k = oracle::Known::default();
    if let Ok(text) = std::fs::read_to_string(verif.join("known_findings.txt")) {
        for line in text.lines() {
            let line = line.trim();
            if let Some(rest) = line.strip_prefix("finding:") {
                let spec = rest.split("::").next().unwrap_or("");
                if spec.split_whitespace().any(|t| t == format!("property={PROPERTY}")) {
                    for tok in spec.split_whitespace() {
                        match tok {
                            "id=KF1" => k.kf1 = true,
                            "id=KF2" => k.kf2 = true,
                            "id=KF3" => k.kf3 = true,
                            _ => {}
                        }
                    }
                }
            }
        }
    }
    k
}

fn known_descriptions(verif: &Path) -> BTreeMap<String, String> {
    let mut m = BTreeMap::new();
    if let Ok(text) = std::fs::read_to_string(verif.join("known_findings.txt")) {
        for line in text.lines() {
            if let Some(rest) = line.trim().strip_prefix("finding:") {
                if let Some((spec, desc)) = rest.split_once("::") {
                    for tok in spec.split_whitespace() {
                        if let Some(id) = tok.strip_prefix("id=") {
                            m.insert(id.to_string(), desc.trim().to_string());
                        }
                    }
                }
            }
        }
    }
    m
}

fn write_replay(verif: &Path, rf: &ReplayFile) -> PathBuf {
    let dir = verif.join("replays");
    let _ = std::fs::create_dir_all(&dir);
    let p = dir.join(format!("{}-{}-{}-{}.json", rf.property, rf.oracle, rf.base_seed, rf.run_index));
    let text = serde_json::to_string_pretty(rf).unwrap();
    std::fs::write(&p, text).unwrap_or_else(|e| harness_error(&format!("write {}: {e}", p.display())));
    p
}

/// Restricts the pool to the images a scenario mentions and renumbers the scenario.
fn extract(sc: &Scenario, pool: &[Image]) -> (Scenario, Vec<Image>) {
    use scenario::Op;
    let mut used: Vec<usize> = vec![0, sc.initial];
    if sc.relative {
        used.push(sc.decoy);
    }
    for op in &sc.ops {
        match op {
            Op::Replace { image } => used.push(*image),
            Op::Load { plan, .. } => {
                if let Some((_, i)) = plan.replace_at {
                    used.push(i)
                }
                if let Some(i) = plan.replace_before_open {
                    used.push(i)
                }
            }
            Op::Concurrent { threads, .. } => {
                for t in threads {
                    used.push(t.image);
                    if let Some((_, i)) = t.plan.replace_at {
                        used.push(i)
                    }
                    if let Some(i) = t.plan.replace_before_open {
                        used.push(i)
                    }
                }
            }
            _ => {}
        }
    }
    used.sort_unstable();
    used.dedup();
    let map = |i: usize| used.iter().position(|&u| u == i).unwrap();
    let mut s = sc.clone();
    s.initial = map(s.initial);
    if s.relative {
        s.decoy = map(s.decoy);
    }
    for op in s.ops.iter_mut() {
        match op {
            Op::Replace { image } => *image = map(*image),
            Op::Load { plan, .. } => {
                if let Some((_, i)) = &mut plan.replace_at {
                    *i = map(*i)
                }
                if let Some(i) = &mut plan.replace_before_open {
                    *i = map(*i)
                }
            }
            Op::Concurrent { threads, .. } => {
                for t in threads.iter_mut() {
                    t.image = map(t.image);
                    if let Some((_, i)) = &mut t.plan.replace_at {
                        *i = map(*i)
                    }
                    if let Some(i) = &mut t.plan.replace_before_open {
                        *i = map(*i)
                    }
                }
            }
            _ => {}
        }
    }
    (s, used.iter().map(|&i| pool[i].clone()).collect())
}

/// The fault-free sweep of pool image `idx` as a scenario: load it from a healthy disk, then
/// query (every whole second within +-40 s of every entry when `full`).
fn sweep_scenario(idx: usize, full: bool) -> Scenario {
    use scenario::{Op, Plan};
    Scenario {
        seed: 0xF00D_0000 + idx as u64,
        stratum: "fault-free sweep".into(),
        n_clients: 1,
        initial: idx,
        stat_lies: 0,
                        relative: false,
                        decoy: 0,
        clock: Some(1_790_380_800 + idx as u64 * 86_400 * 97),
        ops: vec![
            Op::Load {
                client: 0,
                plan: Plan::default(),
                must_succeed: true,
                spelling: 0,
            },
            Op::Query {
                client: 0,
                probe_seed: idx as u64,
                full,
            },
        ],
    }
}

/// Run indices of the first-in-process stratum start here (far above any batch size).
const FIRST_RUN_BASE: u64 = 1_000_000_000_000;

/// Scenario `j` of the first-in-process stratum: image A (every rendered image in turn) is the
/// first file the process loads; then the shipped list — or, every third time round, another
/// image — is installed and loaded; then A again. Fault-free, whole-buffer reads.
fn first_scenario(base_seed: u64, j: usize, n_images: usize) -> Scenario {
    use scenario::{Op, Plan};
    let rendered = n_images.saturating_sub(1).max(1);
    let a = if n_images > 1 { 1 + j % rendered } else { 0 };
    let round = j / rendered;
    let mut rng = prng::Rng::new(prng::mix(base_seed ^ 0xF125_7000_0000_0003, j as u64));
    let b = if round % 3 == 2 && n_images > 1 { 1 + rng.usize_below(rendered) } else { 0 };
    let load = |client| Op::Load { client, plan: Plan::default(), must_succeed: false, spelling: 0 };
    let mut ops = vec![load(0), Op::Query { client: 0, probe_seed: rng.next_u64(), full: false }];
    for (k, img) in [b, a].into_iter().enumerate() {
        ops.push(Op::Replace { image: img });
        ops.push(load(1 - k % 2));
        ops.push(Op::Query { client: 1 - k % 2, probe_seed: rng.next_u64(), full: false });
    }
    // the provider loaded first is asked again at the end
    ops.push(Op::Query { client: 0, probe_seed: rng.next_u64(), full: false });
    Scenario {
        seed: prng::mix(base_seed, FIRST_RUN_BASE + j as u64),
        stratum: "first-in-process".into(),
        n_clients: 2,
        initial: a,
        stat_lies: 0,
        relative: false,
        decoy: 0,
        clock: Some(1_790_380_800 + j as u64 * 86_400),
        ops,
    }
}

/// Executes a replay record in a fresh process and returns the violation it reports, if any.
fn run_isolated(rf: &ReplayFile, tmp: &Path) -> Option<Violation> {
    std::fs::write(tmp, serde_json::to_string(rf).unwrap())
        .unwrap_or_else(|e| harness_error(&format!("write {}: {e}", tmp.display())));
    let exe = std::env::current_exe().unwrap_or_else(|e| harness_error(&format!("current_exe: {e}")));
    let out = std::process::Command::new(exe)
        .arg("replay")
        .arg(tmp)
        .output()
        .unwrap_or_else(|e| harness_error(&format!("spawn replay: {e}")));
    let text = String::from_utf8_lossy(&out.stdout);
    match out.status.code() {
        Some(0) => None,
        Some(1) => text
            .lines()
            .find_map(|l| l.strip_prefix("RESULT "))
            .and_then(|j| serde_json::from_str::<Violation>(j).ok()),
        other => harness_error(&format!(
            "isolated replay ended with {other:?}: {text} {}",
            String::from_utf8_lossy(&out.stderr)
        )),
    }
}

fn cmd_replay(args: &Args) -> i32 {
    let path = args.replay.clone().unwrap_or_else(|| harness_error("replay needs a file"));
    let text = std::fs::read_to_string(&path)
        .unwrap_or_else(|e| harness_error(&format!("cannot read {}: {e}", path.display())));
    let rf: ReplayFile = serde_json::from_str(&text)
        .unwrap_or_else(|e| harness_error(&format!("cannot parse {}: {e}", path.display())));
    exec::install_quiet_panic_hook();
    println!(
        "replaying {} (oracle {}, seed {}, run {}, {} ops)",
        path.display(),
        rf.oracle,
        rf.base_seed,
        rf.run_index,
        rf.scenario.ops.len()
    );
    if rf.scenario.ops.is_empty() && rf.oracle == "O5" {
        // O5 has no scenario: re-evaluate it on the working tree.
        let repo = env_path("VERIF_REPO", "/repo");
        match load_shipped(&repo, 0, 0) {
            Err(v) => {
                println!("reproduced: {} {}", v.oracle, v.message);
                println!("VIOLATION property={PROPERTY} replay={}", path.display());
                return 1;
            }
            Ok(sh) => {
                if let Err(m) = oracle::o5_shipped_data_agree(&sh.pool[0].table, &sh.naif) {
                    println!("reproduced: O5 {m}");
                    println!("VIOLATION property={PROPERTY} replay={}", path.display());
                    return 1;
                }
            }
        }
        println!("not reproduced: O5 holds on this tree");
        return 0;
    }
    let ctx = Arc::new(PoolCtx::new(rf.pool.clone(), known_ids(&env_path("VERIF_DIR", "/verif"))));
    let dirs = make_real_dirs(&ctx.images);
    let mut sim = new_sim(&ctx, &dirs, "replay");
    if rf.first_in_process {
        println!("(no calibration load: the scenario's first load is the first of this process)");
    } else if let Err(m) = sim.calibrate() {
        println!("note: calibration load failed: {m}");
    }
    if sim.bypass {
        println!("NOTE seam-bypassed: from_path did not open the file through the seam; faults cannot be injected");
    }
    sim.trace = true;
    let r = sim.execute(&rf.scenario);
    for l in &r.trace {
        println!("  {l}");
    }
    println!("event-log hash {:016x}", r.log_hash);
    match r.violation {
        Some(v) => {
            println!("reproduced: {} at op {}: {}", v.oracle, v.op_index, v.message);
            println!("RESULT {}", serde_json::to_string(&v).unwrap());
            if v.oracle != rf.oracle {
                println!("note: recorded oracle was {}", rf.oracle);
            }
            println!("VIOLATION property={PROPERTY} replay={}", path.display());
            1
        }
        None => {
            println!("not reproduced: the scenario passes on this tree");
            0
        }
    }
}

/// Compares two per-run hash files (`<run> <hash> <steals>` per line). Runs in which the
/// cooperative scheduler had to steal the turn (timing-dependent by design) are excluded.
fn cmd_cmp_hashes(a: &Path, b: &Path) -> i32 {
    let read = |p: &Path| -> Vec<(u64, String, u64)> {
        std::fs::read_to_string(p)
            .unwrap_or_else(|e| harness_error(&format!("cannot read {}: {e}", p.display())))
            .lines()
            .filter_map(|l| {
                let mut it = l.split_whitespace();
                Some((it.next()?.parse().ok()?, it.next()?.to_string(), it.next()?.parse().ok()?))
            })
            .collect()
    };
    let (xa, xb) = (read(a), read(b));
    if xa.len() != xb.len() || xa.is_empty() {
        println!("hash files differ in length: {} vs {}", xa.len(), xb.len());
        return 1;
    }
    let mut excluded = 0;
    let mut differing = Vec::new();
    for (l, r) in xa.iter().zip(&xb) {
        if l.0 != r.0 {
            println!("run index mismatch {} vs {}", l.0, r.0);
            return 1;
        }
        if l.2 > 0 || r.2 > 0 {
            excluded += 1;
        } else if l.1 != r.1 {
            differing.push(l.0);
        }
    }
    println!(
        "compared {} runs, {} excluded (scheduler steals), {} differing{}",
        xa.len() - excluded,
        excluded,
        differing.len(),
        if differing.is_empty() { String::new() } else { format!(": {:?}", &differing[..differing.len().min(10)]) }
    );
    if differing.is_empty() { 0 } else { 1 }
}

fn cmd_audit() -> i32 {
    let repo = env_path("VERIF_REPO", "/repo");
    let verif = env_path("VERIF_DIR", "/verif");
    let rep = audit::run(&repo, &verif.join("properties.jsonl"));
    for l in &rep.new_hits {
        println!("{l}");
    }
    println!(
        "premise audit: {} files, {} lines, {} allow-listed hits, {} new hits",
        rep.files_scanned,
        rep.lines_scanned,
        rep.allowed_hits,
        rep.new_hits.len()
    );
    0
}

fn cmd_run(args: &Args) -> i32 {
    let t0 = Instant::now();
    let repo = env_path("VERIF_REPO", "/repo");
    let verif = env_path("VERIF_DIR", "/verif");
    let thorough = args.tier == "thorough";
    let runs = args.runs.unwrap_or(if thorough { 5_000_000 } else { 40_000 });
    let n_rendered = args.pool.unwrap_or(if thorough { 384 } else { 96 });
    let workers = args.workers.max(1);
    println!(
        "sim: property={PROPERTY} tier={} seed={} runs={} workers={} pool=1+{}",
        args.tier, args.seed, runs, workers, n_rendered
    );
    exec::install_quiet_panic_hook();

    let mut violations: Vec<(u64, Violation, Option<Scenario>)> = Vec::new();
    let shipped = match load_shipped(&repo, n_rendered, args.seed) {
        Ok(s) => Some(s),
        Err(v) => {
            violations.push((0, v, None));
            None
        }
    };
    let mut out_counters = Counters::default();
    let mut sweep_counters = Counters::default();
    let mut signatures: BTreeSet<u64> = BTreeSet::new();
    let mut interleavings: BTreeSet<(u32, u32, u32)> = BTreeSet::new();
    let mut v0_bits: Vec<u64> = Vec::new();
    let mut combined: u64 = 0;
    let mut bypass = false;
    let clock_ok = exec::clock_seam_works();
    let mono_ok = simclock::works();
    if !mono_ok {
        println!("NOTE monotonic-clock-seam-inactive: Instant does not see simulated time here; stalled reads pass no time");
    }
    if !clock_ok {
        println!("NOTE clock-seam-bypassed: Epoch::now() does not read the simulated clock; runs see the real one");
    }
    let mut samples: Vec<Value> = Vec::new();
    let mut model_probes = 0u64;
    let mut diff_probes = 0u64;
    let mut distinct_tables_swept = 0usize;
    let mut executed: u64 = 0;
    let mut first_runs: u64 = 0;
    let mut v0_len = 0usize;
    let mut pool_classes: BTreeMap<String, usize> = BTreeMap::new();

    if let Some(sh) = shipped {
        // O5, once per batch.
        if let Err(m) = oracle::o5_shipped_data_agree(&sh.pool[0].table, &sh.naif) {
            violations.push((
                0,
                Violation {
                    oracle: "O5".into(),
                    op_index: 0,
                    message: m,
                },
                None,
            ));
        }
        for img in &sh.pool {
            *pool_classes.entry(img.class.clone()).or_default() += 1;
        }
        let ctx = Arc::new(PoolCtx::new(sh.pool, known_ids(&verif)));
        v0_len = ctx.images[0].len();
        let dirs = make_real_dirs(&ctx.images);

        // Calibration and fault-free sweeps on this thread.
        let mut sweep_found: Vec<(u64, Violation)> = Vec::new();
        {
            let mut sim = new_sim(&ctx, &dirs, "main");
            if let Err(m) = sim.calibrate() {
                violations.push((
                    0,
                    Violation {
                        oracle: "O2".into(),
                        op_index: 0,
                        message: m,
                    },
                    None,
                ));
            }
            bypass = sim.bypass;
            if bypass {
                println!("NOTE seam-bypassed: from_path did not open the file through the seam; running fault-free oracles only");
            }
            let mut seen_tables: Vec<Vec<refdata::Entry>> = Vec::new();
            for idx in 0..ctx.images.len() {
                // Fault-free load + O1 for every pool image; the full +-40 s sweep once per
                // distinct table. Expressed as a scenario so that a failure replays like any other.
                let new_table = !seen_tables.contains(&ctx.images[idx].table);
                if new_table {
                    seen_tables.push(ctx.images[idx].table.clone());
                }
                let sc = sweep_scenario(idx, new_table);
                if let Some(v) = sim.execute(&sc).violation {
                    sweep_found.push((idx as u64, v));
                    if sweep_found.len() >= 4 {
                        break;
                    }
                }
            }
            distinct_tables_swept = seen_tables.len();
            let c = sim.counters();
            sweep_counters = c.clone();
            model_probes += c.get(C::o4_model_probes);
            diff_probes += c.get(C::o4_differential_probes);
        }

        // The batch.
        let next = Arc::new(AtomicU64::new(0));
        let stop_limit = Arc::new(AtomicU64::new(runs));
        let outs: Arc<Mutex<Vec<WorkerOut>>> = Arc::new(Mutex::new(Vec::new()));
        let want_hashes = args.hashes.is_some();
        let base_seed = args.seed;
        std::thread::scope(|s| {
            for wi in 0..workers {
                let ctx = ctx.clone();
                let dirs = &dirs;
                let next = next.clone();
                let stop_limit = stop_limit.clone();
                let outs = outs.clone();
                s.spawn(move || {
                    let mut out = WorkerOut::default();
                    let r = std::panic::catch_unwind(std::panic::AssertUnwindSafe(|| {
                        let mut sim = new_sim(&ctx, dirs, &format!("w{wi}"));
                        sim.bypass = bypass;
                        loop {
                            let start = next.fetch_add(64, Ordering::SeqCst);
                            if start >= stop_limit.load(Ordering::SeqCst) {
                                break;
                            }
                            for i in start..(start + 64).min(runs) {
                                if i >= stop_limit.load(Ordering::SeqCst) {
                                    break;
                                }
                                let seed = prng::mix(base_seed, i);
                                let sc = scenario::generate(seed, i, &ctx.infos);
                                let r = sim.execute(&sc);
                                if r.steals == 0 {
                                    out.combined = out
                                        .combined
                                        .wrapping_add(prng::mix(r.log_hash, i));
                                }
                                if want_hashes {
                                    out.hashes.push((i, r.log_hash, r.steals));
                                }
                                if r.nontrivial {
                                    out.signatures.insert(r.signature);
                                    let key = sc.stratum.split('@').next().unwrap().to_string();
                                    let e = out.sample_idx.entry(key).or_insert(i);
                                    if i < *e {
                                        *e = i;
                                    }
                                }
                                if let Some(v) = r.violation {
                                    out.violations.push((i, v));
                                    let lim = (i / BLOCK + 1) * BLOCK;
                                    stop_limit.fetch_min(lim, Ordering::SeqCst);
                                }
                            }
                        }
                        out.counters = Some(sim.counters());
                        out.interleavings = sim.interleavings();
                        out.v0_bits = sim.v0_offsets_faulted();
                        out.model_probes = sim.probe_stats.model_compared;
                        out.diff_probes = sim.probe_stats.differential_compared;
                    }));
                    if let Err(p) = r {
                        let msg = if let Some(h) = p.downcast_ref::<HarnessError>() {
                            h.0.clone()
                        } else if let Some(s) = p.downcast_ref::<String>() {
                            s.clone()
                        } else if let Some(s) = p.downcast_ref::<&str>() {
                            s.to_string()
                        } else {
                            "worker panicked".to_string()
                        };
                        out.harness_error = Some(msg);
                    }
                    outs.lock().unwrap().push(out);
                });
            }
        });
        let limit = stop_limit.load(Ordering::SeqCst);
        let mut all_hashes: Vec<(u64, u64, u64)> = Vec::new();
        let mut sample_idx: BTreeMap<String, u64> = BTreeMap::new();
        let mut found: Vec<(u64, Violation)> = Vec::new();
        for o in outs.lock().unwrap().drain(..) {
            if let Some(m) = o.harness_error {
                harness_error(&format!("worker failed: {m}"));
            }
            if let Some(c) = &o.counters {
                out_counters.merge(c);
            }
            signatures.extend(o.signatures);
            interleavings.extend(o.interleavings);
            if v0_bits.is_empty() {
                v0_bits = o.v0_bits;
            } else {
                for (a, b) in v0_bits.iter_mut().zip(&o.v0_bits) {
                    *a |= b;
                }
            }
            combined = combined.wrapping_add(o.combined);
            all_hashes.extend(o.hashes);
            for (k, i) in o.sample_idx {
                let e = sample_idx.entry(k).or_insert(i);
                if i < *e {
                    *e = i;
                }
            }
            found.extend(o.violations.into_iter().filter(|(i, _)| *i < limit));
            model_probes += o.model_probes;
            diff_probes += o.diff_probes;
        }
        executed = out_counters.get(C::runs);
        if let Some(p) = &args.hashes {
            all_hashes.sort_unstable();
            let mut s = String::new();
            for (i, h, st) in &all_hashes {
                s.push_str(&format!("{i} {h:016x} {st}\n"));
            }
            std::fs::write(p, s).unwrap_or_else(|e| harness_error(&format!("write {}: {e}", p.display())));
        }

        // Samples: a byte-sweep run and the first non-trivial run of each other stratum, re-executed
        // with tracing on a fresh world.
        {
            let mut sim = new_sim(&ctx, &dirs, "samples");
            sim.bypass = bypass;
            sim.trace = true;
            let mut idxs: Vec<u64> = sample_idx.values().copied().collect();
            idxs.sort_unstable();
            idxs.dedup();
            for i in idxs.into_iter().take(4) {
                let sc = scenario::generate(prng::mix(base_seed, i), i, &ctx.infos);
                let r = sim.execute(&sc);
                samples.push(json!({
                    "run_index": i,
                    "seed": sc.seed,
                    "stratum": sc.stratum,
                    "initial_image": ctx.images[sc.initial].name,
                    "clients": sc.n_clients,
                    "ops": serde_json::to_value(&sc.ops).unwrap(),
                    "what_happened": r.trace,
                    "event_log_hash": format!("{:016x}", r.log_hash),
                }));
            }
        }

        // First-in-process stratum (as built, round 20, after seeded change M214: row layout
        // learned ONCE, from the first data row the process ever parses). Every run of the batch
        // is preceded, in its process, by the calibration load of the shipped list — so whatever a
        // loader learns from the first file it sees, it always learnt from the same file. Here
        // each scenario runs in a process of its own whose first load is the scenario's: every
        // rendered image in turn as the first file, then the shipped list (or another image),
        // then the first again, each load judged as usual.
        let mut first_found: Vec<(u64, Violation, Scenario)> = Vec::new();
        if !bypass {
            let n_first: usize = if args.tier == "thorough" { 1024 } else { ctx.images.len().saturating_sub(1).min(128) };
            let next = std::sync::atomic::AtomicUsize::new(0);
            let results: std::sync::Mutex<Vec<(u64, Violation, Scenario)>> = std::sync::Mutex::new(Vec::new());
            std::thread::scope(|sc| {
                for w in 0..args.workers.max(1) {
                    let (next, results, ctx, dirs) = (&next, &results, &ctx, &dirs);
                    sc.spawn(move || loop {
                        let j = next.fetch_add(1, std::sync::atomic::Ordering::Relaxed);
                        if j >= n_first {
                            break;
                        }
                        let s = first_scenario(base_seed, j, ctx.images.len());
                        let (s2, pool2) = extract(&s, &ctx.images);
                        let rf = ReplayFile {
                            property: PROPERTY.into(),
                            oracle: String::new(),
                            message: String::new(),
                            base_seed,
                            run_index: FIRST_RUN_BASE + j as u64,
                            original_ops: s.ops.len(),
                            shrink_executions: 0,
                            pool: pool2,
                            scenario: s2,
                            first_in_process: true,
                        };
                        if let Some(v) = run_isolated(&rf, &dirs.root.join(format!("first.{w}.json"))) {
                            results.lock().unwrap().push((j as u64, v, s));
                        }
                    });
                }
            });
            first_runs = n_first as u64;
            first_found = results.into_inner().unwrap();
            first_found.sort_by_key(|(j, _, _)| *j);
        }
        if let Some((j, v, s)) = first_found.first().cloned() {
            let iso = dirs.root.join("first.shrink.json");
            let mk = |sc: &Scenario, v: &Violation, execs: usize| {
                let (s2, pool2) = extract(sc, &ctx.images);
                ReplayFile {
                    property: PROPERTY.into(),
                    oracle: v.oracle.clone(),
                    message: v.message.clone(),
                    base_seed,
                    run_index: FIRST_RUN_BASE + j,
                    original_ops: s.ops.len(),
                    shrink_executions: execs,
                    pool: pool2,
                    scenario: s2,
                    first_in_process: true,
                }
            };
            let mut isolated = |sc: &Scenario| -> Option<Violation> { run_isolated(&mk(sc, &v, 0), &iso) };
            let sh = shrink::shrink(&mut isolated, &s, &v, 40);
            let rf = mk(&sh.scenario, &sh.violation, sh.executions);
            let p = write_replay(&verif, &rf);
            let mut vv = sh.violation;
            vv.message = format!(
                "[first load of a fresh process: {} of {} such runs failed] {} [replay {}]",
                first_found.len(),
                first_runs,
                vv.message,
                p.display()
            );
            violations.push((FIRST_RUN_BASE + j, vv, Some(rf.scenario)));
        }

        // Minimise and record the lowest-index violation per oracle. A violation counts only if it
        // reproduces from its scenario alone in a FRESH PROCESS (the replay contract); if the code
        // under test carries state from one run to the next (a process-wide cache, say), a run of
        // the batch may fail only because of what ran before it on the same worker, and the next
        // candidates are tried instead.
        found.sort_by_key(|(i, _)| *i);
        // Sweep failures come first; their scenario is the sweep scenario of that image.
        let n_sweep = sweep_found.len();
        let found: Vec<(u64, Violation)> = sweep_found.into_iter().chain(found).collect();
        let mut seen_oracles: BTreeSet<String> = BTreeSet::new();
        let mut unreproducible: Vec<(u64, Violation)> = Vec::new();
        let mut sim = new_sim(&ctx, &dirs, "shrink");
        sim.bypass = bypass;
        let iso_path = dirs.root.join("isolated.json");
        let mut tried = 0;
        let mut tried_sequential = 0;
        let mut tried_marathon = 0;
        for (k, (i, v)) in found.into_iter().enumerate() {
            if seen_oracles.contains(&v.oracle) {
                continue;
            }
            // State shared between calls shows up in ordinary runs only through what other workers
            // happen to do at the same time, which no scenario can replay; the concurrent stratum
            // reproduces it from its scenario. Give both kinds of candidate their own budget.
            let concurrent = v.message.starts_with("[concurrent loads");
            let sc = if k < n_sweep {
                let idx = i as usize;
                sweep_scenario(idx, true)
            } else {
                scenario::generate(prng::mix(base_seed, i), i, &ctx.infos)
            };
            // Likewise state that *accumulates* (a call counter, a table with a capacity) trips in
            // whichever run happens to cross the threshold on its worker, which does not replay;
            // the marathon stratum crosses such thresholds within one run. Its own budget too.
            let marathon = sc.stratum == "marathon";
            if marathon {
                tried_marathon += 1;
                if tried_marathon > 3 {
                    continue;
                }
            } else if !concurrent {
                tried_sequential += 1;
                if tried_sequential > 12 {
                    continue;
                }
            }
            tried += 1;
            if tried > 48 {
                break;
            }
            let mk_rf = |s: &Scenario, v: &Violation, execs: usize| {
                let (s2, pool2) = extract(s, &ctx.images);
                ReplayFile {
                    property: PROPERTY.into(),
                    oracle: v.oracle.clone(),
                    message: v.message.clone(),
                    base_seed,
                    run_index: i,
                    original_ops: sc.ops.len(),
                    shrink_executions: execs,
                    pool: pool2,
                    scenario: s2,
                    first_in_process: false,
                }
            };
            let mut isolated = |s: &Scenario| -> Option<Violation> {
                let rf = mk_rf(s, &v, 0);
                run_isolated(&rf, &iso_path)
            };
            // Fast path: minimise in this process on a fresh world, then confirm in a fresh process.
            let mut result: Option<shrink::Shrunk> = None;
            let again = sim.execute(&sc);
            if matches!(&again.violation, Some(v2) if v2.oracle == v.oracle) {
                // (a history of a thousand operations is not minimised at length: what makes it
                // fail is its length)
                let sh = shrink::shrink(&mut |s| sim.execute(s).violation, &sc, &v, if marathon { 150 } else { 4000 });
                if matches!(isolated(&sh.scenario), Some(v3) if v3.oracle == v.oracle) {
                    result = Some(sh);
                }
            }
            // Slow path: every candidate executed in a fresh process.
            if result.is_none() {
                if matches!(isolated(&sc), Some(v3) if v3.oracle == v.oracle) {
                    result = Some(shrink::shrink(&mut isolated, &sc, &v, if marathon { 60 } else { 400 }));
                }
            }
            match result {
                Some(sh) => {
                    seen_oracles.insert(v.oracle.clone());
                    let rf = mk_rf(&sh.scenario, &sh.violation, sh.executions);
                    let p = write_replay(&verif, &rf);
                    violations.push((i, sh.violation, Some(rf.scenario)));
                    let last = violations.last_mut().unwrap();
                    last.1.message = format!("{} [replay {}]", last.1.message, p.display());
                }
                None => unreproducible.push((i, v)),
            }
        }
        if violations.is_empty() && !unreproducible.is_empty() {
            let (i, v) = &unreproducible[0];
            harness_error(&format!(
                "{} violation(s) observed inside the batch (first: run {i}, {} {}) did not reproduce from their scenario alone in a fresh process. The harness is deterministic on the unchanged tree, so the code under test most likely carries state across calls (see the premise audit: ./check audit). No replayable verdict can be given.",
                unreproducible.len(),
                v.oracle,
                v.message
            ));
        }
    }

    // Report.
    let known = known_findings(&verif);
    let mut n_viol = 0;
    let mut lines: Vec<String> = Vec::new();
    for (i, v, sc) in &violations {
        if let Some((_, _, desc)) = known
            .iter()
            .find(|(o, m, _)| (o.is_empty() || *o == v.oracle) && v.message.contains(m.as_str()))
        {
            lines.push(format!("KNOWN-FINDING: property={PROPERTY} {desc}"));
            continue;
        }
        n_viol += 1;
        let replay = match v.message.rfind("[replay ") {
            Some(k) => v.message[k + 8..].trim_end_matches(']').to_string(),
            None => {
                // No scenario (O5 / calibration / sweep): write a scenario-less replay record.
                let rf = ReplayFile {
                    property: PROPERTY.into(),
                    oracle: v.oracle.clone(),
                    message: v.message.clone(),
                    base_seed: args.seed,
                    run_index: *i,
                    original_ops: 0,
                    shrink_executions: 0,
                    pool: vec![],
                    scenario: sc.clone().unwrap_or(Scenario {
                        seed: 0,
                        stratum: "fault-free calibration".into(),
                        n_clients: 1,
                        initial: 0,
                        stat_lies: 0,
                        relative: false,
                        decoy: 0,
                        clock: None,
                        ops: vec![],
                    }),
                    first_in_process: false,
                };
                write_replay(&verif, &rf).display().to_string()
            }
        };
        lines.push(format!("violation: oracle={} run={} {}", v.oracle, i, v.message));
        lines.push(format!("VIOLATION property={PROPERTY} replay={replay}"));
    }
    lines.dedup();
    let descs = known_descriptions(&verif);
    let kf_hits = [
        ("KF1", out_counters.get(C::kf1_hits) + sweep_counters.get(C::kf1_hits)),
        (
            "KF2",
            out_counters.get(C::kf2_roundtrip_hits)
                + out_counters.get(C::kf2_backstep_hits)
                + sweep_counters.get(C::kf2_roundtrip_hits)
                + sweep_counters.get(C::kf2_backstep_hits),
        ),
        (
            "KF3",
            out_counters.get(C::kf3_backstep_hits) + sweep_counters.get(C::kf3_backstep_hits),
        ),
    ];
    for (id, hits) in kf_hits {
        if hits > 0 {
            lines.push(format!(
                "KNOWN-FINDING: property={PROPERTY} {id} {} [{hits} probe(s) in this run fell into the characterised set]",
                descs.get(id).cloned().unwrap_or_default()
            ));
        }
    }

    // Premise audit (informational).
    let arep = audit::run(&repo, &verif.join("properties.jsonl"));
    for l in &arep.new_hits {
        println!("{l}");
    }

    let wall = t0.elapsed().as_secs_f64();
    let v0_faulted: u32 = v0_bits.iter().map(|w| w.count_ones()).sum();

    // Harness self-check (quick and thorough): the generator must reach the rare conditions.
    let mut stuck: Vec<&str> = Vec::new();
    if !bypass && executed >= 20_000 && n_viol == 0 {
        for (c, name) in [
            (C::eintr_on_first_read, "eintr_on_first_read"),
            (C::eintr_before_eof_read, "eintr_before_eof_read"),
            (C::hard_at_eof_fired, "hard_at_eof_fired"),
            (C::replace_mid_fired_to_different_table, "replace_mid_fired_to_different_table"),
            (C::load_while_denied, "load_while_denied"),
            (C::reads_split_multibyte_char, "reads_split_multibyte_char"),
            (C::reads_split_crlf, "reads_split_crlf"),
            (C::reads_split_inside_data_line, "reads_split_inside_data_line"),
            (C::hard_persistent_fired, "hard_persistent_fired"),
            (C::queries_stale_provider, "queries_stale_provider"),
            (C::tail_loads_ok, "tail_loads_ok"),
        ] {
            if out_counters.get(c) == 0 {
                stuck.push(name);
            }
        }
        for (ix, name) in OFFCLASS_NAMES.iter().enumerate() {
            if *name != "blank" && out_counters.hard_by_class[ix] == 0 {
                stuck.push(name);
            }
        }
        if (v0_faulted as usize) < v0_len + 1 {
            stuck.push("v0_byte_offsets_all_faulted");
        }
    }

    // Evidence.
    let mut cmap = serde_json::Map::new();
    for (i, n) in COUNTER_NAMES.iter().enumerate() {
        cmap.insert((*n).to_string(), json!(out_counters.v[i]));
    }
    let mut by_class = serde_json::Map::new();
    for (i, n) in OFFCLASS_NAMES.iter().enumerate() {
        by_class.insert((*n).to_string(), json!(out_counters.hard_by_class[i]));
    }
    let kinds = scenario::ErrKind::NAMES;
    let mut by_kind = serde_json::Map::new();
    for (i, n) in kinds.iter().enumerate() {
        by_kind.insert((*n).to_string(), json!(out_counters.hard_by_kind[i]));
    }
    if samples.is_empty() {
        samples.push(json!({"note": "no run executed"}));
    }
    let evidence = json!({
        "property_id": PROPERTY,
        "tier": args.tier,
        "seed": args.seed,
        "level": "exploration",
        "wall_s": wall,
        "violations": n_viol + args.miri_violations.min(1) as i32,
        "coverage": {
            "evaluations": executed.max(1),
            "distinct_nontrivial": signatures.len(),
            "rule": "One evaluation = one simulated run: a seeded scenario of 3-15 operations (Load/Query/Replace/Deny/Allow/Restart by up to 3 clients) against the real LeapSecondsFile::from_path reading through the simulated disk, with a per-load fault plan (short reads, EINTR, hard read errors incl. persistent and at-EOF, open failure, file replaced mid-load). Run i <= len(shipped list) forces one hard fault at byte offset i of the shipped list. A run is non-trivial when at least one error-returning fault or a mid-load replacement actually fired AND at least one load returned Ok and was compared against the opened file's table; distinct = distinct (initial image class, operation-kind sequence, per load: #EINTR fired (capped 3), #hard faults, line/column-class/kind of first hard fault, open-failure, denial, mid-load replacement, short reads, outcome) tuples among non-trivial runs.",
            "samples": samples,
            "scope": "Decided by simulation: C06 sentence 1 / configuration clause (file-loaded provider == table of the opened file == built-in table, under injected reader/disk faults, replacements and concurrent loads). Sentences 2-3 (per-instant UTC<->TAI) are NOT decided by simulation: they are evaluated only at an enumerated set of probe instants (oracle O6: PRNG-free full sweep once per batch, light seeded form at every query, i.e. after whatever loads/faults/replacements the run performed).",
            "seam_bypassed": bypass,
            "clock_seam_works": clock_ok,
            "runs_per_hour": if wall > 0.0 { (executed as f64 / wall * 3600.0) as u64 } else { 0 },
            "monotonic_clock_seam_works": mono_ok,
            "first_in_process_runs": first_runs,
            "simulated_time": format!("{} s of simulated elapsed time passed inside stalled reads (counter stalled_simulated_seconds; the monotonic clock behind std::time::Instant and the wall clock behind Epoch::now are both simulated for the code under test and advance only through stalls and SetClock operations); the unchanged tree has no timer, sleep or deadline and reads neither clock (counter monotonic_clock_reads_by_loader), so its step budget is counted in read calls", out_counters.get(C::stalled_simulated_seconds)),
            "counters": Value::Object(cmap),
            "hard_faults_fired_by_offset_class": Value::Object(by_class),
            "hard_faults_fired_by_kind": Value::Object(by_kind),
            "v0_byte_offsets_hard_faulted": v0_faulted,
            "v0_byte_offsets_total": v0_len + 1,
            "distinct_interleavings_open_image_x_installed_image_x_line": interleavings.len(),
            "fault_free_sweep": {
                "pool_images": pool_classes.values().sum::<usize>(),
                "pool_image_classes": pool_classes,
                "distinct_tables_fully_swept_pm40s": distinct_tables_swept,
                "model_probes_total": model_probes,
                "differential_probes_total": diff_probes,
                "o6_conversion_full_sweeps": sweep_counters.get(C::o6_full_sweeps),
                "o6_utc_instants_probed": sweep_counters.get(C::o6_utc_probes),
                "o6_tai_instants_probed": sweep_counters.get(C::o6_tai_probes),
                "o6_zone_designator_strings_judged": sweep_counters.get(C::o6_zone_strings_judged) + out_counters.get(C::o6_zone_strings_judged),
            },
            "known_finding_hits": {
                "KF1": kf_hits[0].1,
                "KF2": kf_hits[1].1,
                "KF3": kf_hits[2].1,
            },
            "event_log_hash_combined": format!("{combined:016x}"),
            "determinism_pairs_checked": args.det_pairs,
            "miri_concurrent_clients": {
                "what": "3 client threads x 24 operations (loads through the seam from memory, lookups, UTC<->TAI conversions, SOFA-inclusive touches) interpreted by Miri, whose seeded scheduler preempts at basic-block granularity; one miri seed = one interleaving; the clients set up, meet at a barrier and start together, each with a first use of one entry point (first-use initialisation races); 96 seeds in the thorough tier, 16 in the quick tier (48 more as a fallback when violations seen in a batch do not replay from their scenario)",
                "miri_seeds_executed": args.miri_seeds,
                "miri_seeds_with_violation": args.miri_violations,
            },
            "rare_condition_probes_stuck_at_zero": stuck,
            "components": {
                "real": [
                    "hifitime::LeapSecondsFile::from_path (open-error mapping, read_to_string call, line/column parse, table build), built from /repo's working tree",
                    "Iterator / DoubleEndedIterator / Index of LeapSecondsFile and LatestLeapSeconds; LATEST_LEAP_SECONDS",
                    "Epoch::leap_seconds_with / leap_seconds / leap_seconds_iers and callees",
                    "std Read::read_to_string (UTF-8 validation, EINTR retry, buffer growth), generic-Read path",
                ],
                "stub": [
                    "std::fs::File -> SimFile (every read decided by the simulator)",
                    "file system -> SimDisk (path -> immutable image; open binds to the image current at that moment), mirrored on the real disk by symlink+rename so a loader that bypasses the seam sees the same file",
                    "callers and the updater: simulated, single OS thread per run",
                ],
            },
            "premise_audit": {
                "files_scanned": arep.files_scanned,
                "lines_scanned": arep.lines_scanned,
                "allow_listed_hits": arep.allowed_hits,
                "new_hits": arep.new_hits,
            },
        },
        "assumptions": [
            "std::fs::File is replaced by a generic Read behind the verif_seam feature; the fs::File specialisation of read_to_string (buffer pre-sizing) and the kernel are not exercised",
            "the reference readers for data/leap-seconds.list and naif0012.txt in the harness are correct (they cross-check each other: O5)",
            "rendered images stay inside the IERS format as described in the file's own header (comment lines start with '#', two whitespace-separated integer columns, optional trailing comment, LF or CRLF)",
            "seeded search samples fault sequences; a clean batch is evidence, not proof",
        ],
    });
    if let Some(p) = &args.evidence {
        if let Some(d) = p.parent() {
            let _ = std::fs::create_dir_all(d);
        }
        std::fs::write(p, serde_json::to_string_pretty(&evidence).unwrap())
            .unwrap_or_else(|e| harness_error(&format!("write {}: {e}", p.display())));
    }

    println!(
        "sim: {} runs in {:.1}s ({:.0} runs/s), {} loads ({} ok, {} err, {} panicked), {} distinct non-trivial, combined hash {:016x}",
        executed,
        wall,
        executed as f64 / wall.max(1e-9),
        out_counters.get(C::loads),
        out_counters.get(C::loads_ok),
        out_counters.get(C::loads_err),
        out_counters.get(C::loads_panicked),
        signatures.len(),
        combined
    );
    if args.verbose {
        for (i, n) in COUNTER_NAMES.iter().enumerate() {
            println!("  {n} = {}", out_counters.v[i]);
        }
        for (i, n) in OFFCLASS_NAMES.iter().enumerate() {
            println!("  hard@{n} = {}", out_counters.hard_by_class[i]);
        }
        println!("  v0 offsets faulted = {v0_faulted}/{}", v0_len + 1);
        println!("  interleavings = {}", interleavings.len());
    }
    for l in &lines {
        println!("{l}");
    }
    if n_viol > 0 {
        return 1;
    }
    if !stuck.is_empty() {
        // Informational: whether a planned fault fires depends on how far the loader under test
        // reads (one that never issues the read that reports end of file never meets a fault
        // planned there). On the unchanged tree nothing is stuck; the verdict comes from the oracles.
        println!("NOTE generator self-check: rare-condition probes at zero in this run: {stuck:?}");
    }
    println!("sim: property {PROPERTY} held on everything explored");
    0
}

fn main() {
    let _ = START_DIR.set(std::env::current_dir().unwrap_or_else(|_| PathBuf::from("/")));
    let args = match parse_args() {
        Ok(a) => a,
        Err(e) => harness_error(&e),
    };
    let code = match args.cmd.as_str() {
        "run" => cmd_run(&args),
        "replay" => cmd_replay(&args),
        "audit" => cmd_audit(),
        "evidence-add-miri" => {
            let a: Vec<String> = std::env::args().skip(2).collect();
            if a.len() != 3 {
                harness_error("usage: sim evidence-add-miri <evidence.json> <seeds> <violations>");
            }
            let text = std::fs::read_to_string(&a[0]).unwrap_or_else(|e| harness_error(&format!("{e}")));
            let mut v: Value = serde_json::from_str(&text).unwrap_or_else(|e| harness_error(&format!("{e}")));
            let seeds: u64 = a[1].parse().unwrap_or(0);
            let bad: u64 = a[2].parse().unwrap_or(0);
            v["coverage"]["miri_concurrent_clients"]["miri_seeds_executed"] = json!(seeds);
            v["coverage"]["miri_concurrent_clients"]["miri_seeds_with_violation"] = json!(bad);
            if bad > 0 {
                let n = v["violations"].as_i64().unwrap_or(0);
                v["violations"] = json!(n + 1);
            }
            std::fs::write(&a[0], serde_json::to_string_pretty(&v).unwrap())
                .unwrap_or_else(|e| harness_error(&format!("{e}")));
            0
        }
        "cmp-hashes" => {
            let a: Vec<String> = std::env::args().skip(2).collect();
            if a.len() != 2 {
                harness_error("usage: sim cmp-hashes <a> <b>");
            }
            cmd_cmp_hashes(Path::new(&a[0]), Path::new(&a[1]))
        }
        other => harness_error(&format!("unknown command {other}")),
    };
    std::process::exit(code);
}
