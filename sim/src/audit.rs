//! Premise audit (DESIGN section 4): the "not applicable" verdicts rest on a census of seams
//! (shared state, scheduling points, clocks, streams, randomised containers) in hifitime's
//! sources. This re-runs the census on the working tree and reports hits that are not on the
//! allow-list of today's hits. Informational only: it never produces a VIOLATION.

use serde_json::Value;
use std::collections::BTreeMap;
use std::path::Path;

#[derive(Clone, Copy, Debug, PartialEq, Eq, PartialOrd, Ord)]
pub enum Group {
    SharedState,
    ThreadsAsync,
    RandomContainer,
    StreamTraits,
    Clock,
    FsIoNetEnv,
}

fn is_ident(b: u8) -> bool {
    b.is_ascii_alphanumeric() || b == b'_'
}

/// `needle` occurs in `line` delimited by non-identifier characters on the requested sides.
fn word(line: &str, needle: &str, left: bool, right: bool) -> bool {
    let lb = line.as_bytes();
    let mut start = 0;
    while let Some(i) = line[start..].find(needle) {
        let s = start + i;
        let e = s + needle.len();
        let l_ok = !left || s == 0 || !is_ident(lb[s - 1]);
        let r_ok = !right || e >= lb.len() || !is_ident(lb[e]);
        if l_ok && r_ok {
            return true;
        }
        start = s + 1;
    }
    false
}

fn static_item(line: &str) -> bool {
    // `static NAME:` or `static mut NAME:`
    let mut start = 0;
    while let Some(i) = line[start..].find("static") {
        let s = start + i;
        let lb = line.as_bytes();
        let left_ok = s == 0 || !is_ident(lb[s - 1]);
        let rest = line[s + 6..].trim_start();
        let rest = rest.strip_prefix("mut ").map(|r| r.trim_start()).unwrap_or(rest);
        let ident_len = rest
            .bytes()
            .take_while(|b| b.is_ascii_uppercase() || *b == b'_' || b.is_ascii_digit())
            .count();
        if left_ok && ident_len > 0 && rest[ident_len..].trim_start().starts_with(':') && line[s + 6..].starts_with(' ') {
            return true;
        }
        start = s + 6;
    }
    false
}

pub fn classify_line(line: &str) -> Vec<(Group, &'static str)> {
    let mut hits = Vec::new();
    let t = line.trim_start();
    if t.starts_with("//") {
        return hits;
    }
    if static_item(line) {
        hits.push((Group::SharedState, "static item"));
    }
    for (n, l, r) in [
        ("lazy_static", true, false),
        ("once_cell", true, false),
        ("OnceLock", true, true),
        ("OnceCell", true, true),
        ("LazyLock", true, true),
        ("LazyCell", true, true),
        ("thread_local!", true, false),
        ("Mutex", true, false),
        ("RwLock", true, false),
        ("Condvar", true, true),
        ("RefCell", true, true),
        ("UnsafeCell", true, true),
        ("Cell<", true, false),
        ("Arc<", true, false),
        ("Rc<", true, false),
        ("Arc::", true, false),
        ("Rc::", true, false),
        ("unsafe {", true, false),
        ("unsafe fn", true, false),
        ("unsafe impl", true, false),
        ("static mut", true, false),
    ] {
        if word(line, n, l, r) {
            hits.push((Group::SharedState, n));
        }
    }
    // AtomicXxx
    if let Some(i) = line.find("Atomic") {
        if line[i + 6..].bytes().next().map(|b| b.is_ascii_uppercase()).unwrap_or(false) {
            hits.push((Group::SharedState, "Atomic*"));
        }
    }
    for (n, l, r) in [
        ("std::thread", true, false),
        ("thread::spawn", true, false),
        ("thread::scope", true, false),
        ("async fn", true, false),
        (".await", false, true),
        ("tokio", true, false),
        ("rayon", true, false),
        ("crossbeam", true, false),
        ("mpsc", true, true),
    ] {
        if word(line, n, l, r) {
            hits.push((Group::ThreadsAsync, n));
        }
    }
    for (n, l, r) in [
        ("HashMap", true, true),
        ("HashSet", true, true),
        ("RandomState", true, true),
        ("rand::", true, false),
        ("getrandom", true, false),
    ] {
        if word(line, n, l, r) {
            hits.push((Group::RandomContainer, n));
        }
    }
    for (n, l, r) in [
        ("impl Read", true, true),
        ("impl Write", true, true),
        ("impl BufRead", true, true),
        ("dyn Read", true, true),
        ("dyn Write", true, true),
        (": Read", false, true),
        (": Write", false, true),
        (": BufRead", false, true),
        (": fmt::Write", false, true),
    ] {
        if word(line, n, l, r) {
            hits.push((Group::StreamTraits, n));
        }
    }
    for (n, l, r) in [
        ("SystemTime", true, true),
        ("Instant::", true, false),
        ("web_time", true, false),
        ("sleep(", true, false),
    ] {
        if word(line, n, l, r) {
            hits.push((Group::Clock, n));
        }
    }
    for (n, l, r) in [
        ("std::fs", true, false),
        ("fs::", true, false),
        ("File::", true, false),
        ("std::io", true, false),
        ("io::", true, false),
        ("std::net", true, false),
        ("reqwest", true, false),
        ("std::env", true, false),
        ("env::var", true, false),
        ("std::process", true, false),
    ] {
        if word(line, n, l, r) {
            hits.push((Group::FsIoNetEnv, n));
        }
    }
    hits
}

fn allowed(rel: &str, g: Group) -> bool {
    match rel {
        // The hook itself and the feature-gated UT1 downloader (feature off in the default build).
        "src/epoch/verif_seam.rs" | "src/epoch/ut1.rs" => true,
        "src/epoch/leap_seconds_file.rs" => g == Group::FsIoNetEnv,
        "src/epoch/system_time.rs" => g == Group::Clock,
        "src/errors.rs" => g == Group::FsIoNetEnv,
        _ => false,
    }
}

fn walk(dir: &Path, out: &mut Vec<std::path::PathBuf>) {
    let Ok(rd) = std::fs::read_dir(dir) else { return };
    let mut entries: Vec<_> = rd.filter_map(|e| e.ok()).map(|e| e.path()).collect();
    entries.sort();
    for p in entries {
        if p.is_dir() {
            walk(&p, out);
        } else if p.extension().map(|e| e == "rs").unwrap_or(false) {
            out.push(p);
        }
    }
}

pub struct AuditReport {
    pub files_scanned: usize,
    pub lines_scanned: usize,
    pub allowed_hits: usize,
    pub new_hits: Vec<String>,
}

pub fn run(repo: &Path, properties_jsonl: &Path) -> AuditReport {
    // file -> ids of properties anchored there
    let mut anchored: BTreeMap<String, Vec<String>> = BTreeMap::new();
    if let Ok(text) = std::fs::read_to_string(properties_jsonl) {
        for line in text.lines() {
            if let Ok(v) = serde_json::from_str::<Value>(line) {
                let id = v["id"].as_str().unwrap_or("?").to_string();
                if let Some(files) = v["anchors"]["files"].as_array() {
                    for f in files {
                        if let Some(f) = f.as_str() {
                            anchored.entry(f.to_string()).or_default().push(id.clone());
                        }
                    }
                }
            }
        }
    }
    let mut files = Vec::new();
    walk(&repo.join("src"), &mut files);
    let mut rep = AuditReport {
        files_scanned: 0,
        lines_scanned: 0,
        allowed_hits: 0,
        new_hits: Vec::new(),
    };
    for f in files {
        let rel = f.strip_prefix(repo).unwrap_or(&f).to_string_lossy().to_string();
        let name = f.file_name().unwrap().to_string_lossy().to_string();
        // Not part of the default build the properties refer to.
        if name == "python.rs" || name.contains("kani") {
            continue;
        }
        let Ok(text) = std::fs::read_to_string(&f) else { continue };
        rep.files_scanned += 1;
        for (ln, line) in text.lines().enumerate() {
            rep.lines_scanned += 1;
            for (g, pat) in classify_line(line) {
                if allowed(&rel, g) {
                    rep.allowed_hits += 1;
                } else {
                    let ids = anchored
                        .get(&rel)
                        .map(|v| v.join(","))
                        .unwrap_or_else(|| "none-anchored".to_string());
                    rep.new_hits.push(format!(
                        "NA-PREMISE-CHANGED property={ids} {rel}:{} {g:?} `{pat}`",
                        ln + 1
                    ));
                }
            }
        }
    }
    rep
}

#[cfg(test)]
mod tests {
    use super::*;
    #[test]
    fn patterns() {
        assert!(static_item("static CACHE: OnceLock<X> = OnceLock::new();"));
        assert!(static_item("    pub static mut TABLE : [u8; 3] = [0; 3];"));
        assert!(!static_item("    details: &'static str,"));
        assert!(!static_item("pub const fn x() -> &'static str {"));
        assert!(classify_line("use std::sync::Mutex;").iter().any(|h| h.0 == Group::SharedState));
        assert!(classify_line("return Err(HifitimeError::SystemTimeError);").is_empty());
        assert!(!classify_line("let x: HashMap<u8,u8>;").is_empty());
        assert!(classify_line("// uses a Mutex").is_empty());
        assert!(classify_line("    SystemTimeError,").is_empty());
    }
}
