//! Reference readers for the two shipped data files, written independently of hifitime's
//! parser (no hifitime code is called from here). They are the oracle side of O1/O5.

/// One table entry: (seconds since 1900-01-01 as printed in the file, accumulated TAI-UTC in s).
pub type Entry = (u64, u8);

/// Reference reading of an IERS `leap-seconds.list`: every line that is neither empty nor a
/// `#` comment carries, in its first two whitespace-separated columns, an NTP timestamp and
/// the TAI-UTC offset in force from that instant.
pub fn parse_iers_reference(bytes: &[u8]) -> Result<Vec<Entry>, String> {
    // Byte-wise: comments are free text and need not even be valid UTF-8.
    let mut out = Vec::new();
    // a byte order mark is not content
    let bytes = bytes.strip_prefix(&[0xEF, 0xBB, 0xBF]).unwrap_or(bytes);
    for (ln, raw) in bytes.split(|&b| b == b'\n').enumerate() {
        let line = raw.strip_suffix(b"\r").unwrap_or(raw);
        // Blanks are not significant: neither in front of a data line or a comment, nor alone.
        // Where the line is valid UTF-8, any Unicode white space counts as a blank.
        let owned: Vec<u8>;
        let line: &[u8] = match std::str::from_utf8(line) {
            Ok(s) if !s.is_ascii() => {
                let mut o = String::with_capacity(s.len());
                let mut in_comment = false;
                for c in s.chars() {
                    if c == '#' {
                        in_comment = true;
                    }
                    o.push(if !in_comment && c.is_whitespace() { ' ' } else { c });
                }
                owned = o.into_bytes();
                &owned
            }
            _ => line,
        };
        let start = line.iter().position(|&b| b != b' ' && b != b'\t').unwrap_or(line.len());
        let line = &line[start..];
        if line.is_empty() || line[0] == b'#' {
            continue;
        }
        let mut cols = line
            .split(|&b| b == b' ' || b == b'\t')
            .filter(|c| !c.is_empty());
        let ts = cols
            .next()
            .ok_or_else(|| format!("line {}: no first column", ln + 1))?;
        let dat = cols
            .next()
            .ok_or_else(|| format!("line {}: no second column", ln + 1))?;
        let ts = std::str::from_utf8(ts).ok().and_then(dec).ok_or_else(|| format!("line {}: bad timestamp", ln + 1))?;
        let dat = std::str::from_utf8(dat).ok().and_then(dec).ok_or_else(|| format!("line {}: bad offset", ln + 1))?;
        if dat > 255 {
            return Err(format!("line {}: offset {dat} out of range", ln + 1));
        }
        out.push((ts, dat as u8));
    }
    Ok(out)
}

fn dec(s: &str) -> Option<u64> {
    if s.is_empty() || s.len() > 19 {
        return None;
    }
    let mut v: u64 = 0;
    for b in s.bytes() {
        if !b.is_ascii_digit() {
            return None;
        }
        v = v * 10 + (b - b'0') as u64;
    }
    Some(v)
}

/// Days from 1970-01-01 to the given proleptic Gregorian civil date (Howard Hinnant's
/// `days_from_civil`), independent of anything in hifitime.
pub fn days_from_civil(y: i64, m: u32, d: u32) -> i64 {
    let y = if m <= 2 { y - 1 } else { y };
    let era = if y >= 0 { y } else { y - 399 } / 400;
    let yoe = y - era * 400;
    let mp = (m as i64 + 9) % 12;
    let doy = (153 * mp + 2) / 5 + d as i64 - 1;
    let doe = yoe * 365 + yoe / 4 - yoe / 100 + doy;
    era * 146_097 + doe - 719_468
}

/// Inverse of `days_from_civil` (Howard Hinnant's `civil_from_days`).
pub fn civil_from_days(z: i64) -> (i64, u32, u32) {
    let z = z + 719_468;
    let era = if z >= 0 { z } else { z - 146_096 } / 146_097;
    let doe = z - era * 146_097;
    let yoe = (doe - doe / 1460 + doe / 36_524 - doe / 146_096) / 365;
    let y = yoe + era * 400;
    let doy = doe - (365 * yoe + yoe / 4 - yoe / 100);
    let mp = (5 * doy + 2) / 153;
    let d = (doy - (153 * mp + 2) / 5 + 1) as u32;
    let m = if mp < 10 { mp + 3 } else { mp - 9 } as u32;
    (if m <= 2 { y + 1 } else { y }, m, d)
}

/// Calendar fields of a count of nanoseconds since 1900-01-01T00:00:00 in a scale whose days all
/// have 86 400 s (a TAI count, or a UTC count as hifitime keeps it). Used by the unit tests and
/// kept for one-off probes: O6 itself compares hifitime's calendar with itself (DESIGN 7).
#[allow(dead_code)]
pub fn civil_fields(count_ns: i128) -> (i32, u8, u8, u8, u8, u8, u32) {
    const DAY_NS: i128 = 86_400 * 1_000_000_000;
    let days = count_ns.div_euclid(DAY_NS) as i64;
    let rem = count_ns.rem_euclid(DAY_NS);
    let (y, m, d) = civil_from_days(days + days_from_civil(1900, 1, 1));
    let s = (rem / 1_000_000_000) as i64;
    (
        y as i32,
        m as u8,
        d as u8,
        (s / 3600) as u8,
        (s / 60 % 60) as u8,
        (s % 60) as u8,
        (rem % 1_000_000_000) as u32,
    )
}

/// Seconds from 1900-01-01 00:00:00 to midnight of the civil date, counting 86 400 s per day
/// (the convention of the IERS list's first column).
pub fn ntp_seconds_of_date(y: i64, m: u32, d: u32) -> u64 {
    let days = days_from_civil(y, m, d) - days_from_civil(1900, 1, 1);
    (days * 86_400) as u64
}

/// Reference reading of the `DELTET/DELTA_AT` assignment of a NAIF leap-second kernel:
/// pairs `offset, @YYYY-MON-D`, converted to the IERS convention.
pub fn parse_naif_reference(text: &str) -> Result<Vec<Entry>, String> {
    const MONTHS: [&str; 12] = [
        "JAN", "FEB", "MAR", "APR", "MAY", "JUN", "JUL", "AUG", "SEP", "OCT", "NOV", "DEC",
    ];
    // Only the data section counts: the text before \begindata mentions DELTA_AT in prose.
    let data_start = text
        .find("\\begindata")
        .ok_or("no \\begindata marker in NAIF kernel")?;
    let data = &text[data_start..];
    let key = data
        .find("DELTET/DELTA_AT")
        .ok_or("no DELTET/DELTA_AT in NAIF kernel data section")?;
    let after = &data[key..];
    let open = after.find('(').ok_or("no '(' after DELTET/DELTA_AT")?;
    let close = after.find(')').ok_or("no ')' after DELTET/DELTA_AT")?;
    let body = &after[open + 1..close];
    let toks: Vec<&str> = body
        .split(|c: char| c.is_whitespace() || c == ',')
        .filter(|s| !s.is_empty())
        .collect();
    if toks.len() % 2 != 0 {
        return Err(format!("odd number of tokens in DELTA_AT: {}", toks.len()));
    }
    let mut out = Vec::new();
    for pair in toks.chunks(2) {
        let dat = dec(pair[0]).ok_or_else(|| format!("bad DELTA_AT value {:?}", pair[0]))?;
        let date = pair[1]
            .strip_prefix('@')
            .ok_or_else(|| format!("bad DELTA_AT date {:?}", pair[1]))?;
        let mut parts = date.split('-');
        let y = parts.next().and_then(dec).ok_or("bad year")? as i64;
        let mon = parts.next().ok_or("no month")?;
        let m = MONTHS
            .iter()
            .position(|x| *x == mon)
            .ok_or_else(|| format!("bad month {mon:?}"))? as u32
            + 1;
        let d = parts.next().and_then(dec).ok_or("bad day")? as u32;
        if dat > 255 {
            return Err("offset out of range".into());
        }
        out.push((ntp_seconds_of_date(y, m, d), dat as u8));
    }
    Ok(out)
}

/// Model lookup: the offset of the last entry at or before `t` (seconds since 1900), if any.
pub fn model_answer(table: &[Entry], t: i128) -> Option<u8> {
    let mut ans = None;
    for &(ts, dat) in table {
        if (ts as i128) <= t {
            ans = Some(dat);
        } else {
            break;
        }
    }
    ans
}

#[cfg(test)]
mod tests {
    use super::*;
    #[test]
    fn civil() {
        assert_eq!(days_from_civil(1970, 1, 1), 0);
        assert_eq!(ntp_seconds_of_date(1972, 1, 1), 2_272_060_800);
        assert_eq!(ntp_seconds_of_date(2017, 1, 1), 3_692_217_600);
        assert_eq!(ntp_seconds_of_date(1972, 7, 1), 2_287_785_600);
        for z in [-800_000i64, -25_567, -1, 0, 1, 59, 60, 10_956, 11_016, 2_932_896] {
            let (y, m, d) = civil_from_days(z);
            assert_eq!(days_from_civil(y, m, d), z);
        }
        assert_eq!(civil_fields(0), (1900, 1, 1, 0, 0, 0, 0));
        assert_eq!(civil_fields(-1), (1899, 12, 31, 23, 59, 59, 999_999_999));
        assert_eq!(civil_fields(3_692_217_600 * 1_000_000_000 + 5), (2017, 1, 1, 0, 0, 0, 5));
    }
}
