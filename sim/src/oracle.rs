//! Oracles O1, O4, O5 as functions of (provider or built-in table, reference table).
//! O2/O3 depend on what the simulator injected and live in `exec.rs`.

use crate::prng::{Fnv, Rng};
use crate::refdata::{model_answer, Entry};
use hifitime::leap_seconds::{LatestLeapSeconds, LeapSecond, LeapSecondsFile};
use hifitime::{Duration, Epoch, TimeScale};

pub const NS_PER_S: i128 = 1_000_000_000;
pub const NS_PER_CENTURY: i128 = 3_155_760_000 * NS_PER_S;

/// The TAI-scale epoch `ns` nanoseconds after 1900-01-01 00:00:00 TAI, built from canonical
/// (centuries, nanoseconds) parts computed here (no hifitime arithmetic involved).
pub fn tai_epoch_ns(ns: i128) -> Epoch {
    Epoch::from_duration(duration_ns(ns), TimeScale::TAI)
}

pub fn duration_ns(ns: i128) -> Duration {
    let c = ns.div_euclid(NS_PER_CENTURY);
    let r = ns.rem_euclid(NS_PER_CENTURY);
    Duration::from_parts(c as i16, r as u64)
}

fn entry_matches(ls: &LeapSecond, e: &Entry) -> bool {
    ls.timestamp_tai_s == e.0 as f64 && ls.delta_at == e.1 as f64 && ls.announced_by_iers
}

fn describe(ls: &LeapSecond) -> String {
    format!(
        "({}, {}, {})",
        ls.timestamp_tai_s, ls.delta_at, ls.announced_by_iers
    )
}

/// Whatever way a fresh provider is walked — `next` in a loop, or the adapters and positioning
/// methods of `Iterator`/`DoubleEndedIterator`, which a provider may override — it lists the same
/// entries. Each walk starts from a fresh clone and goes in one direction only (mixing `next` and
/// `next_back` on one instance is outside the clause, DESIGN.md section 7).
pub fn iterator_laws<I>(fresh: &I, what: &str) -> Result<(), String>
where
    I: DoubleEndedIterator<Item = LeapSecond> + Clone,
{
    let mut base: Vec<LeapSecond> = Vec::new();
    let mut it = fresh.clone();
    while let Some(x) = it.next() {
        base.push(x);
        if base.len() > 100_000 {
            return Err(format!("{what}: forward iteration does not end"));
        }
    }
    let n = base.len();
    let fail = |how: &str| Err(format!("{what}: {how} disagrees with walking the provider with next()"));
    if fresh.clone().count() != n {
        return fail("count()");
    }
    if fresh.clone().last() != base.last().copied() {
        return fail("last()");
    }
    let (lo, hi) = fresh.size_hint();
    if lo > n || hi.map(|h| h < n).unwrap_or(false) {
        return fail("size_hint()");
    }
    let back: Vec<LeapSecond> = fresh.clone().rev().collect();
    if back.len() != n || back.iter().rev().zip(&base).any(|(a, b)| a != b) {
        return fail("rev()");
    }
    let mut ks: Vec<usize> = vec![0, 1, 2, 13, 14, 15, n / 2, n.saturating_sub(2), n.saturating_sub(1), n, n + 1];
    ks.sort_unstable();
    ks.dedup();
    for &k in &ks {
        let skipped: Vec<LeapSecond> = fresh.clone().skip(k).collect();
        if skipped[..] != base[k.min(n)..] {
            return fail(&format!("skip({k})"));
        }
        let taken: Vec<LeapSecond> = fresh.clone().take(k).collect();
        if taken[..] != base[..k.min(n)] {
            return fail(&format!("take({k})"));
        }
        let mut it = fresh.clone();
        if it.nth(k) != base.get(k).copied() {
            return fail(&format!("nth({k})"));
        }
        if k < n && it.next() != base.get(k + 1).copied() {
            return fail(&format!("next() after nth({k})"));
        }
        let rskipped: Vec<LeapSecond> = fresh.clone().rev().skip(k).collect();
        if rskipped[..] != back[k.min(n)..] {
            return fail(&format!("rev().skip({k})"));
        }
        let mut it = fresh.clone();
        if it.nth_back(k) != back.get(k).copied() {
            return fail(&format!("nth_back({k})"));
        }
        if k < n && it.next_back() != back.get(k + 1).copied() {
            return fail(&format!("next_back() after nth_back({k})"));
        }
    }
    for step in [1usize, 2, 3, 14] {
        let stepped: Vec<LeapSecond> = fresh.clone().step_by(step).collect();
        let want: Vec<LeapSecond> = base.iter().copied().step_by(step).collect();
        if stepped != want {
            return fail(&format!("step_by({step})"));
        }
    }
    if n > 0 {
        let found = fresh.clone().position(|x| x == base[n - 1]);
        let want = base.iter().position(|x| *x == base[n - 1]);
        if found != want {
            return fail("position()");
        }
        let m = fresh.clone().max_by(|a, b| a.timestamp_tai_s.partial_cmp(&b.timestamp_tai_s).unwrap());
        let want = base.iter().copied().max_by(|a, b| a.timestamp_tai_s.partial_cmp(&b.timestamp_tai_s).unwrap());
        if m != want {
            return fail("max_by()");
        }
    }
    Ok(())
}

/// Copy laws: a copy of a fresh provider is a fresh provider of the same table, however the copy
/// is made — `clone()`, or `clone_from` / `clone_into` / `Option::clone_from` into a handle that
/// was used before (a long-lived provider refreshed in place from a newly loaded one): whatever
/// state the old handle was in, afterwards it lists, forwards and backwards, what the source lists.
pub fn copy_laws<I>(fresh: &I, what: &str) -> Result<(), String>
where
    I: DoubleEndedIterator<Item = LeapSecond> + Clone + Default,
{
    let base: Vec<LeapSecond> = fresh.clone().collect();
    let back: Vec<LeapSecond> = fresh.clone().rev().collect();
    let n = base.len();
    // the states a handle may be in before it is refreshed
    let used = |k: usize| -> I {
        let mut h = match k {
            0 => I::default(),
            _ => fresh.clone(),
        };
        let steps = match k {
            0 => 0,
            1 => 1,
            2 => 3,
            3 => n / 2,
            _ => n + 1, // walked to the end (the call that returns None included)
        };
        for _ in 0..steps {
            let _ = h.next();
        }
        h
    };
    for k in 0..5 {
        let how = ["a default provider", "a handle advanced by 1", "a handle advanced by 3", "a handle advanced half-way", "an exhausted handle"][k];
        let mut a = used(k);
        a.clone_from(fresh);
        if a.collect::<Vec<_>>() != base {
            return Err(format!("{what}: {how} refreshed with clone_from(&fresh) does not list what the fresh provider lists"));
        }
        let mut b = used(k);
        b.clone_from(fresh);
        if b.rev().collect::<Vec<_>>() != back {
            return Err(format!("{what}: {how} refreshed with clone_from(&fresh), walked backwards, does not list what the fresh provider lists backwards"));
        }
        let mut c = used(k);
        fresh.clone_into(&mut c);
        if c.rev().collect::<Vec<_>>() != back {
            return Err(format!("{what}: {how} refreshed with clone_into, walked backwards, differs from the fresh provider"));
        }
        let mut o: Option<I> = Some(used(k));
        o.clone_from(&Some(fresh.clone()));
        if o.map(|x| x.rev().collect::<Vec<_>>()) != Some(back.clone()) {
            return Err(format!("{what}: Some({how}) refreshed with Option::clone_from differs from the fresh provider"));
        }
        let mut v: Vec<I> = vec![used(k), used((k + 1) % 5)];
        v.clone_from_slice(&[fresh.clone(), fresh.clone()]);
        for x in v {
            if x.rev().collect::<Vec<_>>() != back {
                return Err(format!("{what}: used handles ({how} and the next state) refreshed with clone_from_slice differ from the fresh provider"));
            }
        }
    }
    let twice = fresh.clone().clone();
    if twice.collect::<Vec<_>>() != base {
        return Err(format!("{what}: a clone of a clone does not list what the provider lists"));
    }
    Ok(())
}

/// O1: the provider holds exactly `table`, seen through all three access paths.
pub fn o1_table_equals(p: &LeapSecondsFile, table: &[Entry]) -> Result<(), String> {
    let fwd: Vec<LeapSecond> = p.clone().collect();
    if fwd.len() != table.len() {
        return Err(format!(
            "forward iteration yields {} entries, the file that was opened has {}",
            fwd.len(),
            table.len()
        ));
    }
    for (i, (ls, e)) in fwd.iter().zip(table).enumerate() {
        if !entry_matches(ls, e) {
            return Err(format!(
                "forward entry {i} is {}, file has ({}, {})",
                describe(ls),
                e.0,
                e.1
            ));
        }
    }
    let rev: Vec<LeapSecond> = p.clone().rev().collect();
    if rev.len() != table.len() {
        return Err(format!(
            "reverse iteration yields {} entries, the file that was opened has {}",
            rev.len(),
            table.len()
        ));
    }
    for (i, (ls, e)) in rev.iter().zip(table.iter().rev()).enumerate() {
        if !entry_matches(ls, e) {
            return Err(format!(
                "reverse entry {i} is {}, file has ({}, {})",
                describe(ls),
                e.0,
                e.1
            ));
        }
    }
    for (i, e) in table.iter().enumerate() {
        let ls = &p[i];
        if !entry_matches(ls, e) {
            return Err(format!(
                "provider[{i}] is {}, file has ({}, {})",
                describe(ls),
                e.0,
                e.1
            ));
        }
    }
    iterator_laws(p, "file provider")?;
    copy_laws(p, "file provider")
}

#[derive(Default, Clone, Debug)]
pub struct ProbeStats {
    pub model_compared: u64,
    pub differential_compared: u64,
}

/// Whole-second probe against the model (and, when `same_as_builtin`, against the built-in table
/// through every public lookup).
pub fn probe_whole_second(
    p: &LeapSecondsFile,
    table: &[Entry],
    same_as_builtin: bool,
    t_s: i128,
    stats: &mut ProbeStats,
    log: &mut Fnv,
) -> Result<(), String> {
    let e = tai_epoch_ns(t_s * NS_PER_S);
    let want = model_answer(table, t_s).map(|d| d as f64);
    let got = e.leap_seconds_with(true, p.clone());
    log.u64(t_s as u64);
    log.u64(got.map(|v| v.to_bits()).unwrap_or(1));
    stats.model_compared += 1;
    if got != want {
        return Err(format!(
            "at TAI second {t_s} since 1900 the file provider answers {got:?}, the file's table says {want:?}"
        ));
    }
    let got_all = e.leap_seconds_with(false, p.clone());
    if got_all != want {
        return Err(format!(
            "at TAI second {t_s} the file provider answers {got_all:?} with iers_only=false, the file's table says {want:?}"
        ));
    }
    if same_as_builtin {
        differential(p, &e, &format!("TAI second {t_s}"), stats)?;
        let t0 = table.first().map(|x| x.0 as i128).unwrap_or(i128::MAX);
        let b = e.leap_seconds(true);
        if b != want {
            return Err(format!(
                "at TAI second {t_s} the built-in table answers {b:?}, the shipped IERS list says {want:?}"
            ));
        }
        if t_s >= t0 {
            // The pre-1972 SOFA entries must not change any answer from 1972 on.
            let with_sofa = e.leap_seconds(false);
            let with_sofa_b = e.leap_seconds_with(false, LatestLeapSeconds::default());
            if with_sofa_b != want {
                return Err(format!(
                    "at TAI second {t_s} (>= first IERS entry) leap_seconds_with(false, built-in) = {with_sofa_b:?}, expected {want:?}"
                ));
            }
            if with_sofa != want {
                return Err(format!(
                    "at TAI second {t_s} (>= first IERS entry) leap_seconds(false) = {with_sofa:?}, expected {want:?}"
                ));
            }
        } else if e.leap_seconds_iers() != 0 {
            return Err(format!(
                "at TAI second {t_s} (< first IERS entry) leap_seconds_iers() = {}, expected 0",
                e.leap_seconds_iers()
            ));
        }
    }
    Ok(())
}

/// Differential half only: the file provider and the built-in table give the same answer for
/// `e`, whatever that answer is. Demanded only for images that denote the shipped table.
pub fn differential(
    p: &LeapSecondsFile,
    e: &Epoch,
    what: &str,
    stats: &mut ProbeStats,
) -> Result<(), String> {
    let f = e.leap_seconds_with(true, p.clone());
    let b = e.leap_seconds_with(true, LatestLeapSeconds::default());
    let l = e.leap_seconds(true);
    stats.differential_compared += 1;
    if f != b || f != l {
        return Err(format!(
            "at {what} file provider answers {f:?}, built-in provider {b:?}, leap_seconds(true) {l:?}"
        ));
    }
    let i = e.leap_seconds_iers();
    let want_i = f.map(|v| v as i32).unwrap_or(0);
    if i != want_i {
        return Err(format!(
            "at {what} leap_seconds_iers() = {i}, file provider answers {f:?}"
        ));
    }
    Ok(())
}

/// Fixed probes that every query evaluates, besides the per-entry ones.
pub fn fixed_probe_seconds() -> Vec<i128> {
    use crate::refdata::ntp_seconds_of_date as ntp;
    let mut v: Vec<i128> = vec![
        -86_400 * 200,                  // 1899
        -1,
        0,                              // 1900-01-01
        1,
        ntp(1959, 6, 1) as i128,
        ntp(2100, 1, 1) as i128,
        ntp(9999, 12, 31) as i128,
        // far outside the calendar the formatting code supports, well inside Duration's range
        -200_000_000_000, // about 4400 BC
        900_000_000_000,  // about AD 30400
        // within minutes of the two ends of what a Duration can count (+-32768 centuries), far
        // enough from them for the offset to fit
        -32_768 * 3_155_760_000 + 1_000,
        32_768 * 3_155_760_000 - 1_000,
    ];
    for y in 1960..=1971 {
        v.push(ntp(y, 1, 1) as i128);
        v.push(ntp(y, 8, 15) as i128 + 3);
    }
    v
}

/// The probe set of one `Query`: T-1, T, T+1 and three seeded offsets in -40..=40 around every
/// entry of the provider's own table and of the shipped table, plus the fixed probes; and, for
/// images denoting the shipped table, differential-only probes at sub-second distances and in
/// other time scales.
pub fn run_query(
    p: &LeapSecondsFile,
    table: &[Entry],
    shipped: &[Entry],
    probe_seed: u64,
    fixed: &[i128],
    stats: &mut ProbeStats,
    log: &mut Fnv,
) -> Result<(), String> {
    let same = table == shipped;
    let mut rng = Rng::new(probe_seed);
    let mut probes: Vec<i128> = Vec::with_capacity(160);
    // Every entry boundary of the provider's own table...
    for &(ts, _) in table {
        for d in [-1i128, 0, 1] {
            probes.push(ts as i128 + d);
        }
    }
    // ...seeded probes within +-40 s of entries of either table (the full +-40 s sweep runs once
    // per distinct table per batch)...
    for _ in 0..8 {
        let ts = if !table.is_empty() && (same || rng.chance(1, 2)) {
            rng.pick(table).0
        } else {
            rng.pick(shipped).0
        };
        let d = rng.range(0, 80) as i128 - 40;
        probes.push(ts as i128 + d);
    }
    if !same {
        // ...and the boundaries the shipped table has but this one may not.
        for _ in 0..4 {
            let ts = rng.pick(shipped).0;
            let d = rng.range(0, 2) as i128 - 1;
            probes.push(ts as i128 + d);
        }
    }
    // ...the mirror images of entries about the reference epoch (-T: as long before 1900 as the
    // entry lies after it), where a sign slip in a comparison shows: nothing is in force there...
    for _ in 0..3 {
        let src = if table.is_empty() || rng.chance(1, 2) { shipped } else { table };
        let ts = rng.pick(src).0 as i128;
        probes.push(-ts + rng.range(0, 2) as i128 - 1);
    }
    probes.extend_from_slice(fixed);
    // In a seeded order: a lookup must not depend on which lookup came before it (an index hint,
    // a memo of the last answer). Now and then a SOFA-inclusive lookup is thrown in, unjudged.
    for i in (1..probes.len()).rev() {
        let j = rng.usize_below(i + 1);
        probes.swap(i, j);
    }
    let (s0, s1) = sofa_span();
    for &t in &probes {
        if rng.chance(1, 16) {
            sofa_touch(s0 + rng.below((s1 - s0) as u64) as i128);
        }
        probe_whole_second(p, table, same, t, stats, log)?;
    }
    if same {
        // Sub-second and other-scale probes: only "file == built-in" is demanded here.
        for _ in 0..4 {
            let ts = rng.pick(table).0;
            let t = ts as i128 * NS_PER_S;
            for d in [-500i128, -1, 1, 500] {
                let e = tai_epoch_ns(t + d);
                differential(p, &e, &format!("TAI {ts} s {d:+} ns"), stats)?;
            }
            let off = rng.range(0, 80) as i128 - 40;
            let scale = *rng.pick(&[TimeScale::UTC, TimeScale::TT, TimeScale::GPST, TimeScale::ET]);
            let e = tai_epoch_ns((ts as i128 + off) * NS_PER_S).to_time_scale(scale);
            differential(p, &e, &format!("{scale:?} view of TAI {ts}{off:+} s"), stats)?;
        }
    }
    Ok(())
}

/// Every 1 January and 1 July from 1958 to 2045 (seconds since 1900): the dates at which a leap
/// second *could* have been inserted. Most of them carry none; an implementation that infers
/// anything from the calendar instead of the table shows up there.
pub fn candidate_dates() -> Vec<i128> {
    use crate::refdata::ntp_seconds_of_date as ntp;
    let mut v = Vec::new();
    for y in 1958..=2045 {
        v.push(ntp(y, 1, 1) as i128);
        v.push(ntp(y, 7, 1) as i128);
    }
    v
}

/// Full sweep: every whole second within +-40 s of every entry of `table` and of `shipped`.
pub fn full_sweep(
    p: &LeapSecondsFile,
    table: &[Entry],
    shipped: &[Entry],
    fixed: &[i128],
    stats: &mut ProbeStats,
) -> Result<(), String> {
    let same = table == shipped;
    let mut log = Fnv::default();
    let mut centers: Vec<u64> = table.iter().map(|e| e.0).collect();
    centers.extend(shipped.iter().map(|e| e.0));
    centers.sort_unstable();
    centers.dedup();
    for ts in centers {
        for d in -40i128..=40 {
            probe_whole_second(p, table, same, ts as i128 + d, stats, &mut log)?;
        }
    }
    for &t in fixed {
        probe_whole_second(p, table, same, t, stats, &mut log)?;
    }
    // mirror images about the reference epoch
    for &(ts, dat) in table.iter().chain(shipped.iter()) {
        for d in [-1i128, 0, 1] {
            probe_whole_second(p, table, same, -(ts as i128) + d, stats, &mut log)?;
            probe_whole_second(p, table, same, -(ts as i128 + dat as i128) + d, stats, &mut log)?;
        }
    }
    for t in candidate_dates() {
        for d in [-1i128, 0, 1] {
            probe_whole_second(p, table, same, t + d, stats, &mut log)?;
        }
    }
    if same {
        // Differential-only probes at sub-second distances and through other time scales.
        for &(ts, _) in table {
            let t = ts as i128 * NS_PER_S;
            for d in [-1_000_000i128, -500, -1, 1, 500, 1_000_000] {
                let e = tai_epoch_ns(t + d);
                differential(p, &e, &format!("TAI {ts} s {d:+} ns"), stats)?;
                let e = tai_epoch_ns(-t + d);
                differential(p, &e, &format!("TAI -{ts} s {d:+} ns"), stats)?;
                if e.leap_seconds(true).is_some() || e.leap_seconds_with(true, p.clone()).is_some() {
                    return Err(format!(
                        "at TAI -{ts} s {d:+} ns (before 1900) a leap second offset is reported: {:?}",
                        e.leap_seconds(true)
                    ));
                }
            }
            for off in [-40i128, -37, -10, -1, 0, 1, 10, 37, 40] {
                for scale in [
                    TimeScale::UTC,
                    TimeScale::TT,
                    TimeScale::GPST,
                    TimeScale::ET,
                    TimeScale::TDB,
                    TimeScale::GST,
                    TimeScale::BDT,
                    TimeScale::QZSST,
                ] {
                    let e = tai_epoch_ns((ts as i128 + off) * NS_PER_S).to_time_scale(scale);
                    differential(p, &e, &format!("{scale:?} view of TAI {ts}{off:+} s"), stats)?;
                }
            }
        }
    }
    Ok(())
}

/// O5: the three shipped descriptions of the table agree.
pub fn o5_shipped_data_agree(shipped: &[Entry], naif: &[Entry]) -> Result<(), String> {
    // The three shipped descriptions could be changed consistently; the 28 leap seconds IERS has
    // announced so far are also known to the harness as calendar dates (image::IERS_DATES).
    let real = crate::image::real_table();
    if shipped.len() < real.len() || shipped[..real.len()] != real[..] {
        let k = shipped.iter().zip(&real).position(|(a, b)| a != b).unwrap_or(shipped.len().min(real.len()));
        return Err(format!(
            "shipped IERS list does not start with the 28 leap seconds announced by IERS: entry {k} is {:?}, announced {:?}",
            shipped.get(k),
            real.get(k)
        ));
    }
    if let Some(extra) = shipped.get(real.len()) {
        // a later bulletin may add entries, but only for dates that are still in the future of
        // the last entry known here by more than a bulletin period
        if extra.0 < crate::refdata::ntp_seconds_of_date(2026, 7, 1) {
            return Err(format!(
                "shipped IERS list carries an entry {extra:?} that IERS never announced (after the 2017 entry and before July 2026)"
            ));
        }
    }
    if shipped != naif {
        return Err(format!(
            "shipped IERS list ({} entries) and NAIF kernel DELTA_AT ({} entries) disagree: first difference {:?}",
            shipped.len(),
            naif.len(),
            shipped
                .iter()
                .zip(naif)
                .find(|(a, b)| a != b)
                .map(|(a, b)| (*a, *b))
        ));
    }
    let builtin: Vec<LeapSecond> = LatestLeapSeconds::default().collect();
    let iers: Vec<&LeapSecond> = builtin.iter().filter(|l| l.announced_by_iers).collect();
    if iers.len() != shipped.len() {
        return Err(format!(
            "built-in table has {} IERS entries, shipped list has {}",
            iers.len(),
            shipped.len()
        ));
    }
    for (i, (ls, e)) in iers.iter().zip(shipped).enumerate() {
        if !(ls.timestamp_tai_s == e.0 as f64 && ls.delta_at == e.1 as f64) {
            return Err(format!(
                "built-in IERS entry {i} is {}, shipped list has ({}, {})",
                describe(ls),
                e.0,
                e.1
            ));
        }
    }
    let t0 = shipped.first().map(|e| e.0 as f64).unwrap_or(f64::MAX);
    for ls in &builtin {
        if !ls.announced_by_iers && ls.timestamp_tai_s >= t0 {
            return Err(format!(
                "built-in non-IERS entry {} is not before the first IERS entry",
                describe(ls)
            ));
        }
    }
    // Reverse iteration and indexing of the built-in provider see the same entries.
    let rev: Vec<LeapSecond> = LatestLeapSeconds::default().rev().collect();
    if rev.len() != builtin.len() || rev.iter().rev().zip(&builtin).any(|(a, b)| a != b) {
        return Err("built-in provider: reverse iteration differs from forward iteration".into());
    }
    let prov = LatestLeapSeconds::default();
    for (i, b) in builtin.iter().enumerate() {
        if prov[i] != *b {
            return Err(format!("built-in provider: index {i} differs from iteration"));
        }
    }
    iterator_laws(&LatestLeapSeconds::default(), "built-in provider")?;
    copy_laws(&LatestLeapSeconds::default(), "built-in provider")?;
    // the 28 IERS entries, reached the way the pinned test reaches them: skipping the 14 others
    let skipped: Vec<LeapSecond> = LatestLeapSeconds::default().skip(builtin.len() - shipped.len()).collect();
    if skipped.len() != shipped.len()
        || skipped.iter().zip(shipped).any(|(ls, e)| !(ls.timestamp_tai_s == e.0 as f64 && ls.delta_at == e.1 as f64))
    {
        return Err("built-in provider: skip(14) does not list exactly the entries of the shipped IERS list".into());
    }
    Ok(())
}

// ---------------------------------------------------------------------------------------------
// O6: the conversions follow the shipped IERS table, whatever providers have been loaded.
//
// This oracle is an ENUMERATION over fixed probe instants derived from the table the simulated
// client loaded from disk (every whole second within +-40 s of every entry, sub-second offsets
// around each entry, the pre-1972 span, far past and future); no part of it is drawn from the
// PRNG in the full sweep, and no fault can change what it sees. It is evaluated (a) once per
// batch on the provider loaded fault-free from the shipped list and (b) in a light, seeded form
// at every Query, i.e. after whatever loads, failed loads and replacements the run performed —
// which is what would expose a load that leaks into process-wide conversion state.

/// Which known findings (see /verif/known_findings.txt) are to be reported as KNOWN-FINDING
/// instead of VIOLATION. Only failures inside the exactly characterised input sets below qualify.
#[derive(Clone, Copy, Debug, Default)]
pub struct Known {
    /// KF1 (repaired by fb5a38a, no longer listed, hence reported as a violation if it returns):
    /// UTC->TAI looks the offset up in f64 seconds, so a UTC instant within 239 ns *before*
    /// entry i already receives offset(i).
    pub kf1: bool,
    /// KF2: TAI->UTC applies entry i from TAI count T_i on instead of T_i + offset(i): (a) the
    /// round trip UTC->TAI->UTC returns u - step for T_i - offset(i-1) <= u < T_i; (b) TAI->UTC
    /// steps back by `step` at TAI count T_i.
    pub kf2: bool,
    /// KF3 (what is left of KF2 after its repair): a UTC count cannot represent an inserted leap
    /// second, and TAI->UTC repeats the second before it: it steps back by the size of the step
    /// at the start of each inserted second (TAI count T_i + offset(i-1)); for the 1972 entry,
    /// which inserts 10 s at once, at TAI count T_0.
    pub kf3: bool,
}

#[derive(Clone, Debug, Default)]
pub struct KnownHits {
    pub kf1: u64,
    pub kf2_roundtrip: u64,
    pub kf2_backstep: u64,
    pub kf3_backstep: u64,
}

#[derive(Clone, Debug, Default)]
pub struct ConvStats {
    pub utc_probes: u64,
    pub tai_probes: u64,
    pub zone_strings_judged: u64,
    /// Set by the PRNG-free sweep: print and parse at every whole-second probe.
    pub text_doors: bool,
    pub hits: KnownHits,
}

pub fn parts_ns(d: Duration) -> i128 {
    let (c, n) = d.to_parts();
    c as i128 * NS_PER_CENTURY + n as i128
}

/// Like `parts_ns`, and the representation must be the canonical one (nanoseconds below one
/// century): equality, hashing and ordering of epochs are field-wise.
pub fn canonical_ns(d: Duration, what: &str) -> Result<i128, String> {
    let (c, n) = d.to_parts();
    if n as i128 >= NS_PER_CENTURY && !(c == i16::MAX && n as i128 == NS_PER_CENTURY) {
        return Err(format!(
            "{what}: result is not in canonical form: ({c} centuries, {n} ns) carries a whole century in its nanosecond field, so ==, hashing and ordering against the same instant built directly disagree"
        ));
    }
    Ok(c as i128 * NS_PER_CENTURY + n as i128)
}

/// Calls that must not influence anything: lookups *including* the pre-1972 SOFA entries, on an
/// instant of the 1960-1971 span, through every entry point. Their results are not judged (the
/// property does not state the SOFA values); what is judged is everything evaluated afterwards.
pub fn sofa_touch(t_s: i128) {
    let e = tai_epoch_ns(t_s * NS_PER_S);
    let _ = e.leap_seconds(false);
    let _ = e.leap_seconds_with(false, LatestLeapSeconds::default());
    let u = utc_epoch_ns(t_s * NS_PER_S);
    let _ = u.leap_seconds(false);
    // ...and at an instant BEFORE the span (1900-1959, derived from `t_s`), where even a
    // SOFA-inclusive lookup finds nothing: a lookup WITHOUT an answer must not leave anything
    // behind either (seeded change M224: a per-thread provider that is rewound only after a
    // lookup that found an entry).
    let (s0, _) = sofa_span();
    let early = s0 - 1 - t_s.rem_euclid(60 * 365 * 86_400);
    let e = tai_epoch_ns(early * NS_PER_S);
    let _ = e.leap_seconds(false);
    let _ = e.leap_seconds_with(false, LatestLeapSeconds::default());
    let _ = utc_epoch_ns(early * NS_PER_S).leap_seconds(false);
}

/// IERS-only answers and conversions at a pre-1972 instant: no offset, no SOFA value.
pub fn judged_pre1972(t_s: i128, shipped: &[Entry], known: Known, st: &mut ConvStats) -> Result<(), String> {
    let e = tai_epoch_ns(t_s * NS_PER_S);
    let a = e.leap_seconds(true);
    let b = e.leap_seconds_with(true, LatestLeapSeconds::default());
    let i = e.leap_seconds_iers();
    if a.is_some() || b.is_some() || i != 0 {
        return Err(format!(
            "at TAI second {t_s} (before the first IERS entry) leap_seconds(true) = {a:?}, leap_seconds_with(true, built-in) = {b:?}, leap_seconds_iers() = {i}; expected None, None, 0 (a pre-1972 SOFA entry is influencing an IERS-only answer)"
        ));
    }
    conv_probe_utc(t_s * NS_PER_S, shipped, known, st)?;
    conv_probe_utc(t_s * NS_PER_S + 999_999_999, shipped, known, st)?;
    st.tai_probes += 1;
    let back = canonical_ns(e.to_time_scale(TimeScale::UTC).duration, "TAI->UTC before 1972")?;
    if back != t_s * NS_PER_S {
        return Err(format!(
            "TAI->UTC at TAI second {t_s} (before 1972) shifts the count by {} ns; the offset before 1972-01-01 is 0 s",
            back - t_s * NS_PER_S
        ));
    }
    Ok(())
}

pub fn sofa_span() -> (i128, i128) {
    use crate::refdata::ntp_seconds_of_date as ntp;
    (ntp(1960, 1, 1) as i128, ntp(1972, 1, 1) as i128)
}

pub fn utc_epoch_ns(ns: i128) -> Epoch {
    Epoch::from_duration(duration_ns(ns), TimeScale::UTC)
}

fn model_offset_ns(shipped: &[Entry], u_ns: i128) -> i128 {
    let mut off = 0i128;
    for &(ts, dat) in shipped {
        if (ts as i128) * NS_PER_S <= u_ns {
            off = dat as i128 * NS_PER_S;
        } else {
            break;
        }
    }
    off
}

const F64_WINDOW_NS: i128 = 239; // half an ulp of f64 seconds at 2^31..2^32 s is 238.4 ns

/// One UTC instant: offset applied (O6a), accessor agreement, round trip (O6c).
/// Returns the TAI count hifitime produced, for the caller's monotonicity check.
pub fn conv_probe_utc(
    u: i128,
    shipped: &[Entry],
    known: Known,
    st: &mut ConvStats,
) -> Result<i128, String> {
    st.utc_probes += 1;
    let e = utc_epoch_ns(u);
    let tai = e.to_time_scale(TimeScale::TAI);
    if tai.time_scale != TimeScale::TAI {
        return Err(format!("UTC {u} ns: to_time_scale(TAI) returned scale {:?}", tai.time_scale));
    }
    let tai_ns = canonical_ns(tai.duration, &format!("UTC->TAI at UTC count {u} ns"))?;
    let got = tai_ns - u;
    let want = model_offset_ns(shipped, u);
    if got != want {
        let kf1 = shipped.iter().any(|&(ts, dat)| {
            let d = ts as i128 * NS_PER_S - u;
            d > 0 && d <= F64_WINDOW_NS && got == dat as i128 * NS_PER_S
        });
        if kf1 && known.kf1 {
            st.hits.kf1 += 1;
        } else {
            return Err(format!(
                "UTC->TAI at UTC count {} s {:+} ns since 1900 adds {} ns; the TAI-UTC offset in force per the shipped IERS list is {} ns{}",
                u.div_euclid(NS_PER_S),
                u.rem_euclid(NS_PER_S),
                got,
                want,
                if kf1 { " [matches KF1, which known_findings.txt does not list]" } else { "" }
            ));
        }
    }
    if e.to_tai_duration() != tai.duration || e.to_duration_in_time_scale(TimeScale::TAI) != tai.duration {
        return Err(format!(
            "UTC count {u} ns: to_tai_duration / to_duration_in_time_scale(TAI) disagree with to_time_scale(TAI)"
        ));
    }
    // The two epochs denote the same instant: equality and ordering across the two scales agree.
    if !(e == tai && tai == e) || e.cmp(&tai) != core::cmp::Ordering::Equal || e < tai || tai < e {
        return Err(format!(
            "UTC count {u} ns and its TAI conversion (TAI count {tai_ns} ns) do not compare as the same instant (==, cmp or < disagree)"
        ));
    }
    // Everything else that converts on the way must see one instant too: differences across the
    // two scales are zero whichever operand comes first, the UNIX and MJD views and the calendar
    // fields in either scale do not depend on which of the two epochs they are taken from.
    let zero = duration_ns(0);
    if (e - tai) != zero || (tai - e) != zero {
        return Err(format!(
            "UTC count {u} ns and its TAI conversion differ by {:?} / {:?} (Epoch - Epoch across the two scales)",
            (e - tai).to_parts(),
            (tai - e).to_parts()
        ));
    }
    // (Only where the calendar code is at home: within minutes of the ends of Duration's range
    // `to_gregorian_*` overflows on its own account, which is not this clause's business.)
    let calendar_range = u.abs() < 1_000_000_000_000 * NS_PER_S;
    let close = |a: f64, b: f64, unit_s: f64| (a - b).abs() * unit_s <= 1e-6 * (1.0 + a.abs() * unit_s * 1e-9);
    if !calendar_range {
        // nothing
    } else if !close(e.to_unix_seconds(), tai.to_unix_seconds(), 1.0)
        || !close(e.to_mjd_utc_days(), tai.to_mjd_utc_days(), 86_400.0)
        || !close(e.to_mjd_tai_days(), tai.to_mjd_tai_days(), 86_400.0)
    {
        return Err(format!(
            "UTC count {u} ns: the UNIX / MJD views of the epoch and of its TAI conversion differ"
        ));
    }
    if calendar_range && (e.to_gregorian_utc() != tai.to_gregorian_utc() || e.to_gregorian_tai() != tai.to_gregorian_tai()) {
        return Err(format!(
            "UTC count {u} ns: calendar fields differ between the epoch and its TAI conversion: UTC {:?} vs {:?}, TAI {:?} vs {:?}",
            e.to_gregorian_utc(),
            tai.to_gregorian_utc(),
            e.to_gregorian_tai(),
            tai.to_gregorian_tai()
        ));
    }
    // ...and they are the fields of the two counts: the UTC door (`to_gregorian_utc`, from either
    // epoch) shows what the calendar code shows for the UTC count, the TAI door what it shows for
    // the UTC count plus the offset in force. Both sides go through hifitime's own calendar
    // arithmetic (a plain TAI-scale epoch carrying the count), so that only the UTC/TAI plumbing is
    // judged here, not the calendar (which has defects of its own: DESIGN.md section 7).
    if calendar_range && got == want {
        let plain_utc_count = tai_epoch_ns(u).to_gregorian_tai();
        let plain_tai_count = tai_epoch_ns(u + want).to_gregorian_tai();
        if e.to_gregorian_utc() != plain_utc_count || tai.to_gregorian_utc() != plain_utc_count {
            return Err(format!(
                "UTC count {u} ns: to_gregorian_utc gives {:?} (from the UTC epoch) / {:?} (from its TAI conversion); the calendar fields of that count are {plain_utc_count:?}",
                e.to_gregorian_utc(),
                tai.to_gregorian_utc()
            ));
        }
        if e.to_gregorian_tai() != plain_tai_count || tai.to_gregorian_tai() != plain_tai_count {
            return Err(format!(
                "UTC count {u} ns: to_gregorian_tai gives {:?} / {:?}; the calendar fields of the TAI count {} ns are {plain_tai_count:?}",
                e.to_gregorian_tai(),
                tai.to_gregorian_tai(),
                u + want
            ));
        }
    }
    // The other doors to and from a UTC count: UNIX time is the UTC count shifted by a constant
    // (2 208 988 800 s), MJD/JDE the count in days shifted by constants; an epoch built through
    // any of them from this count is this epoch, and its TAI conversion is the one above.
    // (Away from the ends of Duration's range, where shifting by a constant saturates.)
    if got == want && calendar_range {
        const UNIX_OFF_NS: i128 = 2_208_988_800 * NS_PER_S;
        let unix = duration_ns(u - UNIX_OFF_NS);
        let unix_s = (u - UNIX_OFF_NS) as f64 / 1e9;
        for (name, v) in [
            ("to_unix_seconds", e.to_unix_seconds()),
            ("to_unix_seconds (from TAI)", tai.to_unix_seconds()),
            ("to_unix(Unit::Millisecond) / 1000", e.to_unix(hifitime::Unit::Millisecond) / 1000.0),
        ] {
            if (v - unix_s).abs() > 1e-6 * (1.0 + unix_s.abs() * 1e-9) {
                return Err(format!(
                    "UTC count {u} ns: {name} = {v} s, the count less 2208988800 s is {unix_s} s"
                ));
            }
        }
        let b = Epoch::from_unix_duration(unix);
        if b.time_scale != TimeScale::UTC || b.duration != e.duration || b.to_time_scale(TimeScale::TAI).duration != tai.duration {
            return Err(format!(
                "UTC count {u} ns: Epoch::from_unix_duration(count - 2208988800 s) is {:?} {:?}, not this UTC epoch",
                b.duration.to_parts(),
                b.time_scale
            ));
        }
        if calendar_range {
            let mjd = 15_020.0 + u as f64 / 86_400e9;
            let mjd_tai = 15_020.0 + (u + want) as f64 / 86_400e9;
            for (name, v, w) in [
                ("to_mjd_utc_days", e.to_mjd_utc_days(), mjd),
                ("to_mjd_utc_days (from TAI)", tai.to_mjd_utc_days(), mjd),
                ("to_jde_utc_days", e.to_jde_utc_days(), mjd + 2_400_000.5),
                ("to_mjd_tai_days", e.to_mjd_tai_days(), mjd_tai),
                ("to_jde_tai_days", tai.to_jde_tai_days(), mjd_tai + 2_400_000.5),
            ] {
                // 1 ms: a day count near 2.4 million resolves half a nanoday (40 us); what matters
                // here is a wrong offset (a second or more), not the last digits of a view
                if (v - w).abs() * 86_400.0 > 1e-3 * (1.0 + w.abs() * 1e-6) {
                    return Err(format!("UTC count {u} ns: {name} = {v} days, the count says {w} days"));
                }
            }
        }
        if u % NS_PER_S == 0 && u.abs() < 10_000_000_000 * NS_PER_S {
            let s = (u / NS_PER_S) as f64;
            for (name, b) in [
                ("from_utc_seconds", Epoch::from_utc_seconds(s)),
                ("from_unix_seconds", Epoch::from_unix_seconds(s - 2_208_988_800.0)),
                ("from_unix_milliseconds", Epoch::from_unix_milliseconds((s - 2_208_988_800.0) * 1000.0)),
            ] {
                // (to the microsecond, or to a few units in the last place of an f64 of nanoseconds:
                // float seconds times 1e9 is not exact beyond 2^53 ns)
                if b.time_scale != TimeScale::UTC || (parts_ns(b.duration) - u).abs() > 1_000 + (u.abs() >> 50) {
                    return Err(format!(
                        "UTC count {u} ns (a whole second): Epoch::{name} of that count gives {:?} {:?}",
                        b.duration.to_parts(),
                        b.time_scale
                    ));
                }
            }
            // and through the calendar: the fields the UTC door shows build this epoch again
            // (from 1900 on: before it the calendar code has a defect of its own, DESIGN.md 7)
        }
        if u % NS_PER_S == 0 && u >= 0 && u < 10_000_000_000 * NS_PER_S {
        }
        // (Text is slow: every whole second of the PRNG-free sweep, one in sixteen elsewhere.)
        if u % NS_PER_S == 0 && u >= 0 && u < 10_000_000_000 * NS_PER_S && (st.text_doors || (u / NS_PER_S) % 16 == 0) {
            // ...and through text: the epoch printed in UTC (its own scale) and in TAI (`{:x}`),
            // read back, is this instant, and converts to the same TAI count.
            use core::str::FromStr;
            for (name, text) in [("Display", format!("{e}")), ("LowerHex (TAI)", format!("{e:x}")), ("Display of its TAI conversion", format!("{tai}"))] {
                match Epoch::from_str(&text) {
                    Ok(b) => {
                        if b.to_time_scale(TimeScale::TAI).duration != tai.duration || b.to_time_scale(TimeScale::UTC).duration != e.duration {
                            return Err(format!(
                                "UTC count {u} ns (a whole second): printed through {name} as {text:?} and read back it is UTC {:?} / TAI {:?}",
                                b.to_time_scale(TimeScale::UTC).duration.to_parts(),
                                b.to_time_scale(TimeScale::TAI).duration.to_parts()
                            ));
                        }
                    }
                    Err(err) => {
                        return Err(format!(
                            "UTC count {u} ns (a whole second): printed through {name} as {text:?}, which does not read back ({err})"
                        ));
                    }
                }
            }
            // ...and as local time with a zone designator: `hh:mm` later on the wall clock, marked
            // `+hh:mm`, is the same UTC instant (the offset shifts the UTC reading, nothing else).
            for (off_s, tz) in [(9 * 3600i128, "+09:00"), (-5 * 3600, "-05:00"), (5 * 3600 + 1800, "+05:30")] {
                let (y, mo, d, h, mi, sec, _) = tai_epoch_ns(u + off_s * NS_PER_S).to_gregorian_tai();
                let text = format!("{y:04}-{mo:02}-{d:02}T{h:02}:{mi:02}:{sec:02}{tz}");
                // (where today's parser does not take the form, nothing is demanded)
                if let Ok(b) = Epoch::from_str(&text) {
                    if b.time_scale == TimeScale::UTC && (b.duration != e.duration || b.to_time_scale(TimeScale::TAI).duration != tai.duration) {
                        return Err(format!(
                            "UTC count {u} ns (a whole second): the local time {text:?} reads back as UTC {:?} / TAI {:?}",
                            b.duration.to_parts(),
                            b.to_time_scale(TimeScale::TAI).duration.to_parts()
                        ));
                    }
                    st.zone_strings_judged += 1;
                }
            }
        }
        if u % NS_PER_S == 0 && u >= 0 && u < 10_000_000_000 * NS_PER_S {
            let (y, mo, d, h, mi, sec, ns) = e.to_gregorian_utc();
            let b = Epoch::from_gregorian_utc(y, mo, d, h, mi, sec, ns);
            if b.time_scale != TimeScale::UTC || b.duration != e.duration || b.to_time_scale(TimeScale::TAI).duration != tai.duration {
                return Err(format!(
                    "UTC count {u} ns (a whole second): from_gregorian_utc{:?} gives {:?} {:?}, not the epoch those fields were read from",
                    (y, mo, d, h, mi, sec, ns),
                    b.duration.to_parts(),
                    b.time_scale
                ));
            }
        }
    }
    // Float views of the same conversion (1 us tolerance: they are views, not the subject).
    let tai_s = tai_ns as f64 / 1e9;
    for (name, v) in [
        ("to_tai_seconds", e.to_tai_seconds()),
        ("to_tai(Unit::Second)", e.to_tai(hifitime::Unit::Second)),
        ("to_tai_days * 86400", e.to_tai_days() * 86_400.0),
    ] {
        if (v - tai_s).abs() > 1e-6 * (1.0 + tai_s.abs() * 1e-9) {
            return Err(format!(
                "UTC count {u} ns: {name} = {v} s, but to_time_scale(TAI) gives {tai_s} s"
            ));
        }
    }
    let built = Epoch::from_utc_duration(duration_ns(u));
    if built.time_scale != TimeScale::UTC || built.duration != e.duration {
        return Err(format!(
            "Epoch::from_utc_duration({u} ns) is not the UTC-scale epoch with that elapsed time: {:?} {:?}",
            built.duration.to_parts(),
            built.time_scale
        ));
    }
    let back = tai.to_time_scale(TimeScale::UTC);
    if back.time_scale != TimeScale::UTC {
        return Err(format!("TAI {tai_ns} ns: to_time_scale(UTC) returned scale {:?}", back.time_scale));
    }
    if tai.to_utc_duration() != back.duration {
        return Err(format!("TAI count {tai_ns} ns: to_utc_duration disagrees with to_time_scale(UTC)"));
    }
    let back_s = parts_ns(back.duration) as f64 / 1e9;
    for (name, v) in [
        ("to_utc_seconds", tai.to_utc_seconds()),
        ("to_utc(Unit::Second)", tai.to_utc(hifitime::Unit::Second)),
        ("to_utc_days * 86400", tai.to_utc_days() * 86_400.0),
    ] {
        if (v - back_s).abs() > 1e-6 * (1.0 + back_s.abs() * 1e-9) {
            return Err(format!(
                "TAI count {tai_ns} ns: {name} = {v} s, but to_time_scale(UTC) gives {back_s} s"
            ));
        }
    }
    let delta = canonical_ns(back.duration, &format!("TAI->UTC at TAI count {tai_ns} ns"))? - u;
    if delta != 0 {
        let mut prev = 0i128;
        let mut kf2 = false;
        for &(ts, dat) in shipped {
            let t = ts as i128 * NS_PER_S;
            let step = dat as i128 * NS_PER_S - prev;
            if prev > 0 && u >= t - prev && u < t && delta == -step {
                kf2 = true;
            }
            prev = dat as i128 * NS_PER_S;
        }
        if kf2 && known.kf2 {
            st.hits.kf2_roundtrip += 1;
        } else {
            return Err(format!(
                "UTC->TAI->UTC at UTC count {} s {:+} ns since 1900 returns the epoch shifted by {} ns{}",
                u.div_euclid(NS_PER_S),
                u.rem_euclid(NS_PER_S),
                delta,
                if kf2 { " [matches KF2, which known_findings.txt does not list]" } else { "" }
            ));
        }
    }
    Ok(tai_ns)
}

/// O6b over a list of UTC probes: UTC->TAI strictly increasing.
pub fn conv_scan_utc(
    probes: &mut Vec<i128>,
    shipped: &[Entry],
    known: Known,
    st: &mut ConvStats,
) -> Result<(), String> {
    // Evaluated in the order given (the caller decides: ascending, descending, strided, shuffled —
    // an implementation that remembers something between calls must not care), then checked for
    // strict monotonicity in instant order.
    let mut results: Vec<(i128, i128)> = Vec::with_capacity(probes.len());
    for &u in probes.iter() {
        let t = conv_probe_utc(u, shipped, known, st)?;
        results.push((u, t));
    }
    results.sort_unstable();
    results.dedup();
    for w in results.windows(2) {
        let ((pu, pt), (u, t)) = (w[0], w[1]);
        if u == pu && t != pt {
            return Err(format!(
                "UTC->TAI of the same instant UTC {u} ns gave TAI {pt} ns once and {t} ns another time in the same query"
            ));
        }
        if u > pu && t <= pt {
            return Err(format!(
                "UTC->TAI is not strictly increasing: UTC {pu} ns -> TAI {pt} ns but later UTC {u} ns -> TAI {t} ns"
            ));
        }
    }
    Ok(())
}

/// O6d over a list of TAI probes: TAI->UTC never goes backwards.
pub fn conv_scan_tai(
    probes: &mut Vec<i128>,
    shipped: &[Entry],
    known: Known,
    st: &mut ConvStats,
) -> Result<(), String> {
    probes.sort_unstable();
    probes.dedup();
    let mut prev: Option<(i128, i128)> = None;
    for &a in probes.iter() {
        st.tai_probes += 1;
        let u = tai_epoch_ns(a).to_time_scale(TimeScale::UTC);
        if u.time_scale != TimeScale::UTC {
            return Err(format!("TAI {a} ns: to_time_scale(UTC) returned scale {:?}", u.time_scale));
        }
        let u_ns = canonical_ns(u.duration, &format!("TAI->UTC at TAI count {a} ns"))?;
        if let Some((pa, pu)) = prev {
            if u_ns < pu {
                let drop = pu - u_ns;
                let mut before = 0i128;
                let mut kf2 = false;
                for &(ts, dat) in shipped {
                    let p = ts as i128 * NS_PER_S;
                    let step = dat as i128 * NS_PER_S - before;
                    if step > 0 && pa < p && a >= p && drop <= step {
                        kf2 = true;
                    }
                    before = dat as i128 * NS_PER_S;
                }
                // KF3: the step back at the start of the inserted second(s).
                let mut before = 0i128;
                let mut kf3 = false;
                for &(ts, dat) in shipped {
                    let step = dat as i128 * NS_PER_S - before;
                    let p = ts as i128 * NS_PER_S + before;
                    if step > 0 && pa < p && a >= p && drop <= step {
                        kf3 = true;
                    }
                    before = dat as i128 * NS_PER_S;
                }
                if kf3 && known.kf3 {
                    st.hits.kf3_backstep += 1;
                } else if kf2 && known.kf2 {
                    st.hits.kf2_backstep += 1;
                } else {
                    return Err(format!(
                        "TAI->UTC goes backwards: TAI {pa} ns -> UTC {pu} ns but later TAI {a} ns -> UTC {u_ns} ns{}",
                        if kf3 {
                            " [matches KF3, which known_findings.txt does not list]"
                        } else if kf2 {
                            " [matches KF2, which known_findings.txt does not list]"
                        } else {
                            ""
                        }
                    ));
                }
            }
        }
        prev = Some((a, u_ns));
    }
    Ok(())
}

/// The full, PRNG-free conversion sweep.
pub fn conv_full_sweep(shipped: &[Entry], fixed: &[i128], known: Known, st: &mut ConvStats) -> Result<(), String> {
    st.text_doors = true;
    let r = conv_full_sweep_inner(shipped, fixed, known, st);
    st.text_doors = false;
    r
}

fn conv_full_sweep_inner(shipped: &[Entry], fixed: &[i128], known: Known, st: &mut ConvStats) -> Result<(), String> {
    let mut utc: Vec<i128> = Vec::new();
    let mut tai: Vec<i128> = Vec::new();
    let mut prev_t: Option<i128> = None;
    for &(ts, dat) in shipped {
        let t = ts as i128 * NS_PER_S;
        for k in -100i128..=100 {
            utc.push(t + k * NS_PER_S);
        }
        for d in [
            -NS_PER_S + 1, -500_000_000, -1_000_000, -1000, -500, -240, -239, -238, -237, -1, 1, 500, 1_000_000,
            500_000_000, NS_PER_S - 1,
        ] {
            utc.push(t + d);
        }
        // the seconds in which the offset that is about to end still applies, at sub-second phase
        for k in 1..=(dat as i128 + 2) {
            utc.push(t - k * NS_PER_S + 123_456_789);
        }
        if let Some(p) = prev_t {
            utc.push((p + t) / 2);
            utc.push((p + t) / 2 + 1);
            utc.push(p + (t - p) / 4 + 250_000_001);
            utc.push(p + (t - p) / 4 * 3 + 999_999_999);
        }
        prev_t = Some(t);
        // the mirror image of the entry about the reference epoch, and of the TAI count at which
        // it takes effect: offset 0 there, to the nanosecond
        for m in [-t, -(t + dat as i128 * NS_PER_S), -(t - dat as i128 * NS_PER_S)] {
            for d in [-NS_PER_S, -1, 0, 1, NS_PER_S] {
                utc.push(m + d);
                tai.push(m + d);
            }
        }
        for k in -90i128..=90 {
            tai.push(t + k * NS_PER_S);
            tai.push(t + k * NS_PER_S + 500_000_000);
        }
        for d in [-1000i128, -239, -238, -1, 1, 238, 239] {
            tai.push(t + d);
            tai.push(t + dat as i128 * NS_PER_S + d);
            tai.push(t + (dat as i128 - 1) * NS_PER_S + d);
        }
    }
    for &s in fixed {
        utc.push(s * NS_PER_S);
        utc.push(s * NS_PER_S + 999_999_999);
        tai.push(s * NS_PER_S);
    }
    for s in candidate_dates() {
        for d in [-2i128, -1, 0, 1, 2] {
            utc.push((s + d) * NS_PER_S);
            tai.push((s + d) * NS_PER_S + 500_000_000);
        }
        utc.push(s * NS_PER_S - 1);
        utc.push(s * NS_PER_S - 238);
    }
    // Boundaries of the representation rather than of the table: a Duration counts centuries of
    // 36525 days from 1900-01-01, so the nanosecond field rolls over on 2000-01-02, 2100-01-03, ...;
    // the conversion must carry across them.
    for k in [-1i128, 0, 1, 2, 3] {
        let c = k * NS_PER_CENTURY;
        for d_s in -45i128..=45 {
            utc.push(c + d_s * NS_PER_S);
            tai.push(c + d_s * NS_PER_S);
        }
        for d in [-NS_PER_S - 1, -500_000_000, -1, 1, 500_000_000] {
            for off in [0i128, 10, 32, 37] {
                utc.push(c - off * NS_PER_S + d);
                tai.push(c + off * NS_PER_S + d);
            }
        }
    }
    utc.sort_unstable();
    utc.dedup();
    // ascending, descending, and a fixed stride permutation
    conv_scan_utc(&mut utc, shipped, known, st)?;
    let mut desc: Vec<i128> = utc.iter().rev().copied().collect();
    conv_scan_utc(&mut desc, shipped, known, st)?;
    let n = utc.len();
    let mut strided: Vec<i128> = (0..n).map(|i| utc[(i * 7919) % n]).collect();
    conv_scan_utc(&mut strided, shipped, known, st)?;
    conv_scan_tai(&mut tai, shipped, known, st)?;
    // The SOFA entries must not influence conversions, *whatever was asked before*: poke the
    // SOFA-inclusive lookups in every month of 1960-1971, then judge IERS-only answers and
    // conversions at that instant, later in the span, and just before the first IERS entry.
    let (s0, s1) = sofa_span();
    let mut m = s0;
    while m < s1 {
        let t = m + 15 * 86_400 + 43_200;
        sofa_touch(t);
        judged_pre1972(t, shipped, known, st)?;
        sofa_touch(t);
        judged_pre1972((t + 40 * 86_400).min(s1 - 2), shipped, known, st)?;
        sofa_touch(t);
        judged_pre1972(s1 - 1, shipped, known, st)?;
        sofa_touch(t);
        // and the first IERS entry itself is unaffected
        conv_probe_utc(s1 * NS_PER_S, shipped, known, st)?;
        conv_probe_utc((s1 + 86_400 * 200) * NS_PER_S, shipped, known, st)?;
        m += 30 * 86_400 + 37_800;
    }
    // Reaching UTC from another uniform scale is reaching it from TAI: same instant, same answer.
    for &(ts, dat) in shipped {
        for k in [-41i128, -1, 0, 1, dat as i128, dat as i128 + 1, 86_400 * 45] {
            let a = tai_epoch_ns((ts as i128 + k) * NS_PER_S + 250_000_000);
            let direct = a.to_time_scale(TimeScale::UTC);
            for scale in [TimeScale::TT, TimeScale::GPST, TimeScale::GST, TimeScale::BDT, TimeScale::QZSST] {
                st.tai_probes += 1;
                let via = a.to_time_scale(scale).to_time_scale(TimeScale::UTC);
                if via.duration != direct.duration || via.time_scale != TimeScale::UTC {
                    return Err(format!(
                        "TAI count {} s + 0.25 s: converting to UTC through {scale:?} gives {:?}, directly gives {:?}",
                        ts as i128 + k,
                        via.duration.to_parts(),
                        direct.duration.to_parts()
                    ));
                }
                let back = direct.to_time_scale(scale).to_time_scale(TimeScale::TAI);
                let want = direct.to_time_scale(TimeScale::TAI);
                if back.duration != want.duration {
                    return Err(format!(
                        "UTC -> {scale:?} -> TAI differs from UTC -> TAI at UTC parts {:?}",
                        direct.duration.to_parts()
                    ));
                }
            }
        }
    }
    Ok(())
}

/// The light, seeded form evaluated at every Query.
pub fn conv_light(shipped: &[Entry], probe_seed: u64, known: Known, st: &mut ConvStats) -> Result<(), String> {
    let mut rng = Rng::new(probe_seed ^ 0xC0_6C06);
    let (s0, s1) = sofa_span();
    let mut utc: Vec<i128> = Vec::new();
    for _ in 0..4 {
        let &(ts, dat) = rng.pick(shipped);
        let t = ts as i128 * NS_PER_S;
        utc.push(t + (rng.range(0, 80) as i128 - 40) * NS_PER_S);
        utc.push(t + (rng.range(0, 2) as i128 - 1) * NS_PER_S);
        utc.push(t - rng.range(1, dat as u64 + 1) as i128 * NS_PER_S + rng.below(NS_PER_S as u64) as i128);
        utc.push(t + rng.range(0, 2000) as i128 - 1000);
    }
    // somewhere in the middle of nowhere, and at a representation boundary
    let lo = shipped.first().map(|e| e.0).unwrap_or(0) as i128;
    utc.push((lo + rng.below(2_000_000_000) as i128) * NS_PER_S + rng.below(NS_PER_S as u64) as i128);
    utc.push(rng.range(0, 2) as i128 * NS_PER_CENTURY - rng.range(0, 40) as i128 * NS_PER_S + rng.below(NS_PER_S as u64) as i128);
    utc.push((s0 + rng.below((s1 - s0) as u64) as i128) * NS_PER_S);
    utc.push(-(rng.pick(shipped).0 as i128) * NS_PER_S + rng.range(0, 2) as i128 - 1);
    // seeded order: nothing may depend on what was converted before
    for i in (1..utc.len()).rev() {
        let j = rng.usize_below(i + 1);
        utc.swap(i, j);
    }
    // Poke the SOFA-inclusive lookups, then judge pre-1972 answers (see conv_full_sweep).
    let touch = s0 + rng.below((s1 - s0 - 2) as u64) as i128;
    sofa_touch(touch);
    judged_pre1972(touch, shipped, known, st)?;
    if rng.chance(1, 2) {
        sofa_touch(touch);
    }
    judged_pre1972(touch + rng.below((s1 - 1 - touch) as u64) as i128, shipped, known, st)?;
    if rng.chance(1, 2) {
        sofa_touch(s0 + rng.below((s1 - s0 - 2) as u64) as i128);
    }
    conv_scan_utc(&mut utc, shipped, known, st)?;
    let mut tai: Vec<i128> = Vec::new();
    let &(ts, dat) = rng.pick(shipped);
    let t = ts as i128 * NS_PER_S;
    for k in [-1i128, 0, 1] {
        tai.push(t + k * NS_PER_S + 500_000_000);
        tai.push(t + (dat as i128 + k) * NS_PER_S);
    }
    conv_scan_tai(&mut tai, shipped, known, st)
}
