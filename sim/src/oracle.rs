//! Oracles O1, O4, O5 as functions of (provider or built-in table, reference table).
//! O2/O3 depend on what the simulator injected and live in `exec.rs`.

use crate::prng::{Fnv, Rng};
use crate::refdata::{model_answer, Entry};
use hifitime::leap_seconds::{LatestLeapSeconds, LeapSecond, LeapSecondsFile};
use hifitime::{Duration, Epoch, TimeScale};

pub const NS_PER_S: i128 = 1_000_000_000;
pub const NS_PER_CENTURY: i128 = 3_155_760_000 * NS_PER_S;

/// The TAI-scale epoch `ns` nanoseconds after 1900-01-01 00:00:00 TAI, built from canonical
/// (centuries, nanoseconds) parts computed here (no hifitime arithmetic involved).
pub fn tai_epoch_ns(ns: i128) -> Epoch {
    Epoch::from_duration(duration_ns(ns), TimeScale::TAI)
}

pub fn duration_ns(ns: i128) -> Duration {
    let c = ns.div_euclid(NS_PER_CENTURY);
    let r = ns.rem_euclid(NS_PER_CENTURY);
    Duration::from_parts(c as i16, r as u64)
}

fn entry_matches(ls: &LeapSecond, e: &Entry) -> bool {
    ls.timestamp_tai_s == e.0 as f64 && ls.delta_at == e.1 as f64 && ls.announced_by_iers
}

fn describe(ls: &LeapSecond) -> String {
    format!(
        "({}, {}, {})",
        ls.timestamp_tai_s, ls.delta_at, ls.announced_by_iers
    )
}

/// O1: the provider holds exactly `table`, seen through all three access paths.
pub fn o1_table_equals(p: &LeapSecondsFile, table: &[Entry]) -> Result<(), String> {
    let fwd: Vec<LeapSecond> = p.clone().collect();
    if fwd.len() != table.len() {
        return Err(format!(
            "forward iteration yields {} entries, the file that was opened has {}",
            fwd.len(),
            table.len()
        ));
    }
    for (i, (ls, e)) in fwd.iter().zip(table).enumerate() {
        if !entry_matches(ls, e) {
            return Err(format!(
                "forward entry {i} is {}, file has ({}, {})",
                describe(ls),
                e.0,
                e.1
            ));
        }
    }
    let rev: Vec<LeapSecond> = p.clone().rev().collect();
    if rev.len() != table.len() {
        return Err(format!(
            "reverse iteration yields {} entries, the file that was opened has {}",
            rev.len(),
            table.len()
        ));
    }
    for (i, (ls, e)) in rev.iter().zip(table.iter().rev()).enumerate() {
        if !entry_matches(ls, e) {
            return Err(format!(
                "reverse entry {i} is {}, file has ({}, {})",
                describe(ls),
                e.0,
                e.1
            ));
        }
    }
    for (i, e) in table.iter().enumerate() {
        let ls = &p[i];
        if !entry_matches(ls, e) {
            return Err(format!(
                "provider[{i}] is {}, file has ({}, {})",
                describe(ls),
                e.0,
                e.1
            ));
        }
    }
    Ok(())
}

#[derive(Default, Clone, Debug)]
pub struct ProbeStats {
    pub model_compared: u64,
    pub differential_compared: u64,
}

/// Whole-second probe against the model (and, when `same_as_builtin`, against the built-in table
/// through every public lookup).
pub fn probe_whole_second(
    p: &LeapSecondsFile,
    table: &[Entry],
    same_as_builtin: bool,
    t_s: i128,
    stats: &mut ProbeStats,
    log: &mut Fnv,
) -> Result<(), String> {
    let e = tai_epoch_ns(t_s * NS_PER_S);
    let want = model_answer(table, t_s).map(|d| d as f64);
    let got = e.leap_seconds_with(true, p.clone());
    log.u64(t_s as u64);
    log.u64(got.map(|v| v.to_bits()).unwrap_or(1));
    stats.model_compared += 1;
    if got != want {
        return Err(format!(
            "at TAI second {t_s} since 1900 the file provider answers {got:?}, the file's table says {want:?}"
        ));
    }
    let got_all = e.leap_seconds_with(false, p.clone());
    if got_all != want {
        return Err(format!(
            "at TAI second {t_s} the file provider answers {got_all:?} with iers_only=false, the file's table says {want:?}"
        ));
    }
    if same_as_builtin {
        differential(p, &e, &format!("TAI second {t_s}"), stats)?;
        let t0 = table.first().map(|x| x.0 as i128).unwrap_or(i128::MAX);
        let b = e.leap_seconds(true);
        if b != want {
            return Err(format!(
                "at TAI second {t_s} the built-in table answers {b:?}, the shipped IERS list says {want:?}"
            ));
        }
        if t_s >= t0 {
            // The pre-1972 SOFA entries must not change any answer from 1972 on.
            let with_sofa = e.leap_seconds(false);
            if with_sofa != want {
                return Err(format!(
                    "at TAI second {t_s} (>= first IERS entry) leap_seconds(false) = {with_sofa:?}, expected {want:?}"
                ));
            }
        } else if e.leap_seconds_iers() != 0 {
            return Err(format!(
                "at TAI second {t_s} (< first IERS entry) leap_seconds_iers() = {}, expected 0",
                e.leap_seconds_iers()
            ));
        }
    }
    Ok(())
}

/// Differential half only: the file provider and the built-in table give the same answer for
/// `e`, whatever that answer is. Demanded only for images that denote the shipped table.
pub fn differential(
    p: &LeapSecondsFile,
    e: &Epoch,
    what: &str,
    stats: &mut ProbeStats,
) -> Result<(), String> {
    let f = e.leap_seconds_with(true, p.clone());
    let b = e.leap_seconds_with(true, LatestLeapSeconds::default());
    let l = e.leap_seconds(true);
    stats.differential_compared += 1;
    if f != b || f != l {
        return Err(format!(
            "at {what} file provider answers {f:?}, built-in provider {b:?}, leap_seconds(true) {l:?}"
        ));
    }
    let i = e.leap_seconds_iers();
    let want_i = f.map(|v| v as i32).unwrap_or(0);
    if i != want_i {
        return Err(format!(
            "at {what} leap_seconds_iers() = {i}, file provider answers {f:?}"
        ));
    }
    Ok(())
}

/// Fixed probes that every query evaluates, besides the per-entry ones.
pub fn fixed_probe_seconds() -> Vec<i128> {
    use crate::refdata::ntp_seconds_of_date as ntp;
    let mut v: Vec<i128> = vec![
        -86_400 * 200,                  // 1899
        -1,
        0,                              // 1900-01-01
        1,
        ntp(1959, 6, 1) as i128,
        ntp(2100, 1, 1) as i128,
        ntp(9999, 12, 31) as i128,
    ];
    for y in 1960..=1971 {
        v.push(ntp(y, 1, 1) as i128);
        v.push(ntp(y, 8, 15) as i128 + 3);
    }
    v
}

/// The probe set of one `Query`: T-1, T, T+1 and three seeded offsets in -40..=40 around every
/// entry of the provider's own table and of the shipped table, plus the fixed probes; and, for
/// images denoting the shipped table, differential-only probes at sub-second distances and in
/// other time scales.
pub fn run_query(
    p: &LeapSecondsFile,
    table: &[Entry],
    shipped: &[Entry],
    probe_seed: u64,
    fixed: &[i128],
    stats: &mut ProbeStats,
    log: &mut Fnv,
) -> Result<(), String> {
    let same = table == shipped;
    let mut rng = Rng::new(probe_seed);
    // Every entry boundary of the provider's own table...
    for &(ts, _) in table {
        for d in [-1i128, 0, 1] {
            probe_whole_second(p, table, same, ts as i128 + d, stats, log)?;
        }
    }
    // ...seeded probes within +-40 s of entries of either table (the full +-40 s sweep runs once
    // per distinct table per batch)...
    for _ in 0..8 {
        let ts = if same || rng.chance(1, 2) {
            rng.pick(table).0
        } else {
            rng.pick(shipped).0
        };
        let d = rng.range(0, 80) as i128 - 40;
        probe_whole_second(p, table, same, ts as i128 + d, stats, log)?;
    }
    if !same {
        // ...and the boundaries the shipped table has but this one may not.
        for _ in 0..4 {
            let ts = rng.pick(shipped).0;
            let d = rng.range(0, 2) as i128 - 1;
            probe_whole_second(p, table, same, ts as i128 + d, stats, log)?;
        }
    }
    for &t in fixed {
        probe_whole_second(p, table, same, t, stats, log)?;
    }
    if same {
        // Sub-second and other-scale probes: only "file == built-in" is demanded here.
        for _ in 0..4 {
            let ts = rng.pick(table).0;
            let t = ts as i128 * NS_PER_S;
            for d in [-500i128, -1, 1, 500] {
                let e = tai_epoch_ns(t + d);
                differential(p, &e, &format!("TAI {ts} s {d:+} ns"), stats)?;
            }
            let off = rng.range(0, 80) as i128 - 40;
            let scale = *rng.pick(&[TimeScale::UTC, TimeScale::TT, TimeScale::GPST, TimeScale::ET]);
            let e = tai_epoch_ns((ts as i128 + off) * NS_PER_S).to_time_scale(scale);
            differential(p, &e, &format!("{scale:?} view of TAI {ts}{off:+} s"), stats)?;
        }
    }
    Ok(())
}

/// Full sweep: every whole second within +-40 s of every entry of `table` and of `shipped`.
pub fn full_sweep(
    p: &LeapSecondsFile,
    table: &[Entry],
    shipped: &[Entry],
    fixed: &[i128],
    stats: &mut ProbeStats,
) -> Result<(), String> {
    let same = table == shipped;
    let mut log = Fnv::default();
    let mut centers: Vec<u64> = table.iter().map(|e| e.0).collect();
    centers.extend(shipped.iter().map(|e| e.0));
    centers.sort_unstable();
    centers.dedup();
    for ts in centers {
        for d in -40i128..=40 {
            probe_whole_second(p, table, same, ts as i128 + d, stats, &mut log)?;
        }
    }
    for &t in fixed {
        probe_whole_second(p, table, same, t, stats, &mut log)?;
    }
    if same {
        // Differential-only probes at sub-second distances and through other time scales.
        for &(ts, _) in table {
            let t = ts as i128 * NS_PER_S;
            for d in [-1_000_000i128, -500, -1, 1, 500, 1_000_000] {
                let e = tai_epoch_ns(t + d);
                differential(p, &e, &format!("TAI {ts} s {d:+} ns"), stats)?;
            }
            for off in [-40i128, -37, -10, -1, 0, 1, 10, 37, 40] {
                for scale in [
                    TimeScale::UTC,
                    TimeScale::TT,
                    TimeScale::GPST,
                    TimeScale::ET,
                    TimeScale::TDB,
                    TimeScale::GST,
                    TimeScale::BDT,
                    TimeScale::QZSST,
                ] {
                    let e = tai_epoch_ns((ts as i128 + off) * NS_PER_S).to_time_scale(scale);
                    differential(p, &e, &format!("{scale:?} view of TAI {ts}{off:+} s"), stats)?;
                }
            }
        }
    }
    Ok(())
}

/// O5: the three shipped descriptions of the table agree.
pub fn o5_shipped_data_agree(shipped: &[Entry], naif: &[Entry]) -> Result<(), String> {
    if shipped != naif {
        return Err(format!(
            "shipped IERS list ({} entries) and NAIF kernel DELTA_AT ({} entries) disagree: first difference {:?}",
            shipped.len(),
            naif.len(),
            shipped
                .iter()
                .zip(naif)
                .find(|(a, b)| a != b)
                .map(|(a, b)| (*a, *b))
        ));
    }
    let builtin: Vec<LeapSecond> = LatestLeapSeconds::default().collect();
    let iers: Vec<&LeapSecond> = builtin.iter().filter(|l| l.announced_by_iers).collect();
    if iers.len() != shipped.len() {
        return Err(format!(
            "built-in table has {} IERS entries, shipped list has {}",
            iers.len(),
            shipped.len()
        ));
    }
    for (i, (ls, e)) in iers.iter().zip(shipped).enumerate() {
        if !(ls.timestamp_tai_s == e.0 as f64 && ls.delta_at == e.1 as f64) {
            return Err(format!(
                "built-in IERS entry {i} is {}, shipped list has ({}, {})",
                describe(ls),
                e.0,
                e.1
            ));
        }
    }
    let t0 = shipped.first().map(|e| e.0 as f64).unwrap_or(f64::MAX);
    for ls in &builtin {
        if !ls.announced_by_iers && ls.timestamp_tai_s >= t0 {
            return Err(format!(
                "built-in non-IERS entry {} is not before the first IERS entry",
                describe(ls)
            ));
        }
    }
    // Reverse iteration and indexing of the built-in provider see the same entries.
    let rev: Vec<LeapSecond> = LatestLeapSeconds::default().rev().collect();
    if rev.len() != builtin.len() || rev.iter().rev().zip(&builtin).any(|(a, b)| a != b) {
        return Err("built-in provider: reverse iteration differs from forward iteration".into());
    }
    let prov = LatestLeapSeconds::default();
    for (i, b) in builtin.iter().enumerate() {
        if prov[i] != *b {
            return Err(format!("built-in provider: index {i} differs from iteration"));
        }
    }
    Ok(())
}
