//! The simulated world (disk, reader, clients) and the executor: `execute(scenario)` is a pure
//! function of the scenario, the pool and the code under test.

use crate::image::{Image, ImageIndex, OffClass};
use crate::oracle::{self, ProbeStats};
use crate::prng::Fnv;
use crate::refdata::Entry;
use crate::conc::{FinishGuard, Scheduler};
use crate::scenario::{ErrKind, Op, Plan, PoolInfo, Scenario};
use hifitime::leap_seconds::LeapSecondsFile;
use hifitime::verif_seam;
use std::cell::RefCell;
use std::collections::BTreeSet;
use std::io::{self, Read};
use std::panic::{catch_unwind, AssertUnwindSafe};
use std::path::{Path, PathBuf};
use std::rc::Rc;
use std::sync::Arc;

// ---------------------------------------------------------------------------------------------
// Pool context shared (read-only) by all workers.

pub struct PoolCtx {
    pub images: Vec<Image>,
    pub index: Vec<ImageIndex>,
    pub infos: Vec<PoolInfo>,
    pub shipped_table: Vec<Entry>,
    pub fixed_probes: Vec<i128>,
    /// Known findings that are reported as such rather than as violations (O6 only).
    pub known: oracle::Known,
}

impl PoolCtx {
    pub fn new(images: Vec<Image>, known: oracle::Known) -> PoolCtx {
        let index = images.iter().map(|i| ImageIndex::new(i.bytes())).collect();
        let infos = images.iter().map(PoolInfo::of).collect();
        let shipped_table = images[0].table.clone();
        PoolCtx {
            images,
            index,
            infos,
            shipped_table,
            fixed_probes: oracle::fixed_probe_seconds(),
            known,
        }
    }
}

// ---------------------------------------------------------------------------------------------
// Counters (reach measurement). Everything here is counted while running, never configured.

macro_rules! counters {
    ($($name:ident),* $(,)?) => {
        #[allow(non_camel_case_types)]
        #[derive(Clone, Copy, Debug, PartialEq, Eq)]
        #[repr(usize)]
        pub enum C { $($name),* , _COUNT }
        pub const COUNTER_NAMES: &[&str] = &[$(stringify!($name)),*];
    };
}

counters!(
    runs,
    ops,
    loads,
    loads_ok,
    loads_err,
    loads_panicked,
    loads_ok_quiet,
    loads_ok_after_transparent_events,
    loads_err_after_fault,
    loads_refused_lenient_format,
    loads_refused_changed_file,
    load_ok_despite_hard_fault,
    load_ok_despite_eintr,
    load_ok_without_open,
    opens,
    opens_second_in_one_load,
    open_fail_planned,
    open_fail_fired,
    open_denied_fired,
    load_while_denied,
    eintr_planned,
    eintr_fired,
    eintr_on_first_read,
    eintr_before_eof_read,
    eintr_burst_fired,
    hard_planned,
    hard_fired,
    hard_persistent_fired,
    hard_at_eof_planned,
    hard_at_eof_fired,
    reads_after_persistent_fault,
    replace_mid_planned,
    replace_mid_fired,
    replace_mid_fired_to_different_table,
    replace_before_open_fired,
    runs_stat_reports_empty,
    runs_stat_reports_other_size,
    replace_between_ops,
    deny_ops,
    allow_ops,
    restart_ops,
    clock_jumps,
    runs_clock_before_1970,
    restart_dropped_provider,
    queries,
    queries_with_provider,
    queries_stale_provider,
    reads_total,
    reads_short,
    reads_one_byte,
    reads_split_multibyte_char,
    reads_split_crlf,
    reads_split_inside_data_line,
    bytes_delivered,
    tail_loads_ok,
    o1_evaluations,
    o2_evaluations,
    o3_evaluations,
    o4_model_probes,
    o4_differential_probes,
    o6_utc_probes,
    o6_zone_strings_judged,
    o6_tai_probes,
    o6_full_sweeps,
    kf1_hits,
    kf2_roundtrip_hits,
    kf2_backstep_hits,
    kf3_backstep_hits,
    real_disk_installs,
    max_reads_in_one_load,
    budget_of_that_load,
    runs_bytesweep,
    runs_quiet,
    runs_transparent,
    runs_mixed,
    runs_concurrent,
    runs_longhistory,
    runs_marathon,
    runs_relative_path,
    one_shot_planned,
    one_shot_reopened,
    stalls_planned,
    stalls_fired,
    stalls_fired_of_a_second_or_more,
    stalled_simulated_seconds,
    loads_with_a_stall_ok,
    loads_refused_after_stall,
    monotonic_clock_reads_by_loader,
    pause_ops,
    paused_simulated_seconds,
    runs_hoarding,
    hoarded_providers_rejudged,
    max_providers_alive_in_one_run,
    loads_refused_drained_source,
    runs_link_chain,
    chdir_ops,
    loads_naming_the_other_directory,
    opens_of_the_other_directory,
    max_loads_in_one_run,
    max_ops_in_one_run,
    conc_threads,
    conc_yield_points,
    conc_switches,
    conc_steals,
    conc_loads_interleaved,
    conc_same_path_ops,
    runs_nontrivial,
);

#[derive(Clone, Debug)]
pub struct Counters {
    pub v: Vec<u64>,
    pub hard_by_class: Vec<u64>, // indexed by OffClass as usize (13 classes)
    pub hard_by_kind: Vec<u64>,
}

pub const OFFCLASS_NAMES: [&str; 13] = [
    "start", "comment", "comment_multibyte", "timestamp_digits", "data_line_start", "column_gap",
    "offset_digits", "data_line_tail", "cr_of_crlf", "lf", "last_byte", "eof", "blank",
];

pub fn offclass_ix(c: OffClass) -> usize {
    match c {
        OffClass::Start => 0,
        OffClass::Comment => 1,
        OffClass::CommentMb => 2,
        OffClass::TsDigits => 3,
        OffClass::DataLineStart => 4,
        OffClass::ColGap => 5,
        OffClass::DatDigits => 6,
        OffClass::DataTail => 7,
        OffClass::Cr => 8,
        OffClass::Lf => 9,
        OffClass::LastByte => 10,
        OffClass::Eof => 11,
        OffClass::Blank => 12,
    }
}

impl Default for Counters {
    fn default() -> Self {
        Counters {
            v: vec![0; C::_COUNT as usize],
            hard_by_class: vec![0; 13],
            hard_by_kind: vec![0; crate::scenario::ErrKind::COUNT],
        }
    }
}

impl Counters {
    #[inline]
    pub fn add(&mut self, c: C, n: u64) {
        self.v[c as usize] += n;
    }
    #[inline]
    pub fn inc(&mut self, c: C) {
        self.v[c as usize] += 1;
    }
    pub fn get(&self, c: C) -> u64 {
        self.v[c as usize]
    }
    pub fn merge(&mut self, o: &Counters) {
        for (i, x) in o.v.iter().enumerate() {
            if i == C::max_reads_in_one_load as usize {
                if *x > self.v[i] {
                    self.v[i] = *x;
                    self.v[C::budget_of_that_load as usize] = o.v[C::budget_of_that_load as usize];
                }
            } else if i == C::max_loads_in_one_run as usize || i == C::max_ops_in_one_run as usize || i == C::max_providers_alive_in_one_run as usize {
                if *x > self.v[i] {
                    self.v[i] = *x;
                }
            } else if i != C::budget_of_that_load as usize {
                self.v[i] += x;
            }
        }
        for (a, b) in self.hard_by_class.iter_mut().zip(&o.hard_by_class) {
            *a += b;
        }
        for (a, b) in self.hard_by_kind.iter_mut().zip(&o.hard_by_kind) {
            *a += b;
        }
    }
}

// ---------------------------------------------------------------------------------------------
// Real-disk mirror (see DESIGN 3.3): the simulated path is also a real path, so that a loader
// which reaches the file without the seam still sees the image that is "on disk".

pub struct RealDisk {
    pub path: PathBuf,
    /// The worker's directory (`path` normally lives here; in chain runs the updater's file is
    /// `dir/chain/target.<tag>` and `dir/<name>` is a chain of links to it).
    dir: PathBuf,
    tmp: PathBuf,
    pub pool_dir: PathBuf,
    current: Option<usize>,
    pub installs: u64,
    /// What `stat` on the path reports in this run: 0 = the truth; 1 = an empty file (the way
    /// pipes, /proc or FUSE files report size 0 although they have content); 2 = some other
    /// image (a size that is simply stale). The seam keeps serving the true content.
    pub stat_lies: u8,
    n_pool: usize,
}

#[derive(Debug)]
pub struct HarnessError(pub String);

/// One path shared by the client threads of a same-path `Concurrent` operation: which image is
/// installed there, and its real-disk mirror.
pub struct SharedDisk {
    /// Bumped at every installation: a load can tell that the path changed under it.
    generation: std::sync::atomic::AtomicU64,
    current: std::sync::atomic::AtomicUsize,
    real: std::sync::Mutex<Option<RealDisk>>,
    path: PathBuf,
}

impl SharedDisk {
    fn get(&self) -> usize {
        self.current.load(std::sync::atomic::Ordering::SeqCst)
    }
    fn generation(&self) -> u64 {
        self.generation.load(std::sync::atomic::Ordering::SeqCst)
    }
    fn install(&self, idx: usize) {
        self.generation.fetch_add(1, std::sync::atomic::Ordering::SeqCst);
        self.current.store(idx, std::sync::atomic::Ordering::SeqCst);
        if let Some(r) = self.real.lock().unwrap_or_else(|e| e.into_inner()).as_mut() {
            r.install(idx);
        }
    }
}

impl RealDisk {
    pub fn new(worker_dir: &Path, pool_dir: &Path) -> Result<RealDisk, HarnessError> {
        std::fs::create_dir_all(worker_dir)
            .map_err(|e| HarnessError(format!("create {}: {e}", worker_dir.display())))?;
        Ok(RealDisk {
            path: worker_dir.join("leap-seconds.list"),
            dir: worker_dir.to_path_buf(),
            tmp: worker_dir.join(".leap-seconds.list.new"),
            pool_dir: pool_dir.to_path_buf(),
            current: None,
            installs: 0,
            stat_lies: 0,
            n_pool: 0,
        })
    }

    pub fn pool_file(pool_dir: &Path, idx: usize) -> PathBuf {
        pool_dir.join(format!("img{idx}.list"))
    }

    /// Every run gets its own path (`leap-seconds.<tag>.list` in the worker's directory), so that
    /// state which the code under test might key by path cannot leak from one run into the next.
    pub fn begin_run(&mut self, tag: u64) {
        if self.current.is_some() {
            let _ = std::fs::remove_file(&self.path);
        }
        // One name in four is not valid UTF-8 (a Latin-1 `e acute`): a path is bytes, not text.
        let mut name: Vec<u8> = format!("leap-seconds.{tag}").into_bytes();
        if tag % 4 == 1 {
            name.extend_from_slice(b".donn\xe9es");
        }
        name.extend_from_slice(b".list");
        use std::os::unix::ffi::OsStringExt;
        self.path = self.dir.join(std::ffi::OsString::from_vec(name));
        self.current = None;
    }

    /// Atomic replacement, the way a careful updater does it: new name, then rename over.
    pub fn install(&mut self, idx: usize) {
        if self.current == Some(idx) {
            return;
        }
        let target = match self.stat_lies {
            1 => self.pool_dir.join("empty.list"),
            2 if self.n_pool > 1 => Self::pool_file(&self.pool_dir, (idx + 1 + idx % 3) % self.n_pool),
            _ => Self::pool_file(&self.pool_dir, idx),
        };
        let _ = std::fs::remove_file(&self.tmp);
        if let Err(e) = std::os::unix::fs::symlink(&target, &self.tmp) {
            std::panic::panic_any(HarnessError(format!("symlink {}: {e}", self.tmp.display())));
        }
        if let Err(e) = std::fs::rename(&self.tmp, &self.path) {
            std::panic::panic_any(HarnessError(format!("rename {}: {e}", self.path.display())));
        }
        self.current = Some(idx);
        self.installs += 1;
    }
}

// ---------------------------------------------------------------------------------------------
// The world behind the seam.

#[derive(Clone, Debug, Default)]
pub struct Fired {
    pub eintr: u32,
    pub hard: Vec<(usize, ErrKind, OffClass, usize, bool)>, // offset, kind, class, line, persistent
    pub open_fail: bool,
    pub denied: bool,
    pub replace: Option<(usize, usize, usize)>, // from, to, offset
    pub short_reads: u32,
    /// A one-shot source was opened again and had nothing left.
    pub drained_reopen: bool,
    /// Reads during which simulated time passed, and how much in all (ms).
    pub stalls: u32,
    pub stalled_ms: u64,
}

impl Fired {
    pub fn any_error_like(&self) -> bool {
        self.eintr > 0 || !self.hard.is_empty() || self.open_fail || self.denied
    }
}

struct Armed {
    plan: Plan,
    chunk_i: usize,
    eintr_i: usize,
    hard_i: usize,
    stall_i: usize,
    open_fail_done: bool,
    replace_done: bool,
    replace_before_open_done: bool,
    persistent: Option<ErrKind>,
    opens: u32,
    bound: Vec<usize>,
    /// Relative runs: the load names the file in the other directory (the decoy).
    named_decoy: bool,
    /// Images bound by opening a file *other* than the one the client's path names.
    bound_other: Vec<usize>,
    reads: u64,
    budget: u64,
    budget_hit: bool,
    fired: Fired,
    last_was_eintr_at: Option<usize>,
}

pub struct BudgetExceeded;

pub struct World {
    ctx: Arc<PoolCtx>,
    current: usize,
    deny: Option<ErrKind>,
    armed: Option<Armed>,
    log: Fnv,
    pub ctr: Counters,
    real: Option<RealDisk>,
    sim_path: PathBuf,
    interleavings: BTreeSet<(u32, u32, u32)>,
    v0_offsets_faulted: Vec<u64>, // bitset
    unarmed_opens: u64,
    sched: Option<(Arc<Scheduler>, usize)>,
    shared: Option<Arc<SharedDisk>>,
    /// Relative runs: where the process "is" (see `Op::Chdir`).
    cwd: Option<CwdState>,
}

/// The working-directory dimension of a relative run: `home` holds the simulated file,
/// `elsewhere` holds another image (the decoy) under the same file name.
struct CwdState {
    home: PathBuf,
    elsewhere: PathBuf,
    away: bool,
    decoy: usize,
    /// The symbolic links of this little world: (link, target as written in the link).
    links: Vec<(PathBuf, PathBuf)>,
    /// Where the simulated file really is (the end of every chain of links that leads to it).
    main_canon: PathBuf,
    /// Where the decoy is found: `elsewhere/<name>` and, in chain runs, `home/target.<tag>`.
    decoys: Vec<PathBuf>,
    /// Links and files of this run to remove when it ends.
    litter: Vec<PathBuf>,
    /// Environment variables changed for this run: (name, value before).
    env_before: Vec<(&'static str, Option<std::ffi::OsString>)>,
}

#[derive(Clone, Copy, PartialEq, Eq)]
enum Named {
    Main,
    Decoy,
    Other,
}

impl CwdState {
    /// Resolves a path the way the kernel walks it: component by component from the directory the
    /// process is in (or from the root), following symbolic links — a relative link target is
    /// relative to the directory THE LINK is in, and `..` after a link is the parent of the
    /// link's target.
    fn resolve(&self, path: &Path) -> PathBuf {
        use std::collections::VecDeque;
        use std::path::Component;
        let mut cur = if path.is_absolute() {
            PathBuf::from("/")
        } else if self.away {
            self.elsewhere.clone()
        } else {
            self.home.clone()
        };
        let mut todo: VecDeque<std::ffi::OsString> = VecDeque::new();
        let push_front = |todo: &mut VecDeque<std::ffi::OsString>, p: &Path| {
            let comps: Vec<std::ffi::OsString> = p
                .components()
                .filter_map(|c| match c {
                    Component::Normal(n) => Some(n.to_os_string()),
                    Component::ParentDir => Some("..".into()),
                    _ => None,
                })
                .collect();
            for c in comps.into_iter().rev() {
                todo.push_front(c);
            }
        };
        push_front(&mut todo, path);
        let mut hops = 0;
        while let Some(c) = todo.pop_front() {
            if c == ".." {
                cur.pop();
                continue;
            }
            let cand = cur.join(&c);
            match self.links.iter().find(|(l, _)| *l == cand) {
                Some((_, target)) if hops < 40 => {
                    hops += 1;
                    if target.is_absolute() {
                        cur = PathBuf::from("/");
                    }
                    push_front(&mut todo, target);
                }
                _ => cur = cand,
            }
        }
        cur
    }

    fn classify(&self, path: &Path) -> Named {
        let canon = self.resolve(path);
        if canon == self.main_canon {
            Named::Main
        } else if self.decoys.contains(&canon) {
            Named::Decoy
        } else {
            Named::Other
        }
    }
}

/// The working directory is process-wide: relative runs execute one at a time (every other run
/// names its file by an absolute path and does not care where the process is).
static CWD_LOCK: std::sync::Mutex<()> = std::sync::Mutex::new(());

/// Restores the working directory (and releases the lock) however the run ends.
struct CwdGuard {
    back_to: PathBuf,
    _lock: std::sync::MutexGuard<'static, ()>,
}

impl Drop for CwdGuard {
    fn drop(&mut self) {
        let _ = std::env::set_current_dir(&self.back_to);
    }
}

impl World {
    /// The image installed at the path right now.
    fn cur(&self) -> usize {
        match &self.shared {
            Some(s) => s.get(),
            None => self.current,
        }
    }

    fn install(&mut self, idx: usize) {
        if let Some(s) = &self.shared {
            s.install(idx);
            return;
        }
        self.current = idx;
        if let Some(r) = self.real.as_mut() {
            r.install(idx);
            self.ctr.v[C::real_disk_installs as usize] = r.installs;
        }
    }

    fn open(&mut self, path: &Path, me: &Rc<RefCell<World>>) -> io::Result<Box<dyn Read>> {
        // Which file does this path name? In a relative run the little world of links and
        // directories decides (see `CwdState::resolve`); otherwise only the simulated path itself
        // is the simulated file.
        let named = match &self.cwd {
            Some(c) => c.classify(path),
            None if path == self.sim_path => Named::Main,
            None => Named::Other,
        };
        match named {
            Named::Decoy => {
                // The other file of that name: served whole, without faults.
                let decoy = self.cwd.as_ref().map(|c| c.decoy).unwrap_or(0);
                self.ctr.inc(C::opens_of_the_other_directory);
                self.log.byte(b'y');
                if let Some(a) = self.armed.as_mut() {
                    a.opens += 1;
                    if a.named_decoy {
                        a.bound.push(decoy);
                    } else {
                        a.bound_other.push(decoy);
                    }
                }
                return Ok(Box::new(io::Cursor::new(self.ctx.images[decoy].bytes().to_vec())));
            }
            Named::Other => {
                // Not a simulated file: behave like the real file system.
                return std::fs::File::open(path).map(|f| Box::new(f) as Box<dyn Read>);
            }
            Named::Main => {}
        }
        self.ctr.inc(C::opens);
        self.log.byte(b'o');
        match self.armed.as_mut() {
            None => {
                self.unarmed_opens += 1;
            }
            Some(a) => {
                a.opens += 1;
                if a.opens == 2 {
                    self.ctr.inc(C::opens_second_in_one_load);
                }
                if let (Some(k), false) = (a.plan.open_fail, a.open_fail_done) {
                    a.open_fail_done = true;
                    a.fired.open_fail = true;
                    self.ctr.inc(C::open_fail_fired);
                    self.log.byte(b'F');
                    return Err(k.to_error());
                }
                if let Some(k) = self.deny {
                    a.fired.denied = true;
                    self.ctr.inc(C::open_denied_fired);
                    self.log.byte(b'D');
                    return Err(k.to_error());
                }
                // A source that can be read once has nothing left for a second open.
                // (Only where the first pass could not have failed on the content itself: a loader
                // that re-opens to RETRY after an error is not what is judged here, see gen_plan.)
                let first_pass_clean = a.bound.first().map(|&i| self.ctx.images[i].raw.is_none()).unwrap_or(false);
                if a.plan.one_shot && a.opens >= 2 && first_pass_clean {
                    a.fired.drained_reopen = true;
                    self.ctr.inc(C::one_shot_reopened);
                    self.log.byte(b'1');
                    return Ok(Box::new(io::empty()));
                }
                // The updater wins the race against this very open call: whatever the loader
                // learnt about the path before (its size, say) describes the previous file.
                if let (Some(to), false) = (a.plan.replace_before_open, a.replace_before_open_done) {
                    a.replace_before_open_done = true;
                    let from = match &self.shared {
                        Some(s) => s.get(),
                        None => self.current,
                    };
                    a.fired.replace = Some((from, to, 0));
                    self.ctr.inc(C::replace_before_open_fired);
                    self.log.byte(b'r');
                    self.log.u64(to as u64);
                    self.install(to);
                }
                let now = self.cur();
                let a = self.armed.as_mut().unwrap();
                if a.named_decoy {
                    a.bound_other.push(now);
                } else {
                    a.bound.push(now);
                }
            }
        }
        let now = self.cur();
        self.log.u64(now as u64);
        Ok(Box::new(SimFile {
            world: me.clone(),
            sched: self.sched.clone(),
            ctx: self.ctx.clone(),
            image: now,
            pos: 0,
        }))
    }
}

struct SimFile {
    world: Rc<RefCell<World>>,
    sched: Option<(Arc<Scheduler>, usize)>,
    ctx: Arc<PoolCtx>, // own handle: no reference-count traffic per read
    image: usize,
    pos: usize,
}

impl Read for SimFile {
    fn read(&mut self, buf: &mut [u8]) -> io::Result<usize> {
        let _harness = crate::simclock::enter_harness();
        if let Some((s, id)) = &self.sched {
            s.yield_point(*id);
        }
        let mut guard = self.world.borrow_mut();
        let w = &mut *guard;
        let ctx = &*self.ctx;
        let bytes = ctx.images[self.image].bytes();
        let len = bytes.len();
        w.ctr.inc(C::reads_total);
        let Some(a) = w.armed.as_mut() else {
            // No plan armed: a plain, healthy file.
            let n = buf.len().min(len - self.pos.min(len));
            buf[..n].copy_from_slice(&bytes[self.pos..self.pos + n]);
            self.pos += n;
            return Ok(n);
        };
        a.reads += 1;
        if a.reads > a.budget {
            a.budget_hit = true;
            drop(guard);
            std::panic::panic_any(BudgetExceeded);
        }
        if buf.is_empty() {
            w.log.byte(b'z');
            return Ok(0);
        }
        if let Some(k) = a.persistent {
            w.ctr.inc(C::reads_after_persistent_fault);
            w.log.byte(b'P');
            return Err(k.to_error());
        }
        let pos = self.pos;
        // 1. updater racing the reader
        if let (Some((off, to)), false) = (a.plan.replace_at, a.replace_done) {
            if pos >= off.min(len) {
                a.replace_done = true;
                let from = match &w.shared {
                    Some(sh) => sh.get(),
                    None => w.current,
                };
                a.fired.replace = Some((from, to, pos));
                w.ctr.inc(C::replace_mid_fired);
                if ctx.images[from].table != ctx.images[to].table {
                    w.ctr.inc(C::replace_mid_fired_to_different_table);
                }
                let line = ctx.index[self.image].line_of(pos.min(len.saturating_sub(1)));
                w.interleavings
                    .insert((self.image as u32, to as u32, line as u32));
                w.log.byte(b'R');
                w.log.u64(to as u64);
                w.install(to);
            }
        }
        let a = w.armed.as_mut().unwrap();
        // 1b. a stalled read: simulated time passes before anything else happens
        while a.stall_i < a.plan.stalls.len() && pos >= a.plan.stalls[a.stall_i].0.min(len) {
            let ms = a.plan.stalls[a.stall_i].1;
            a.stall_i += 1;
            a.fired.stalls += 1;
            a.fired.stalled_ms = a.fired.stalled_ms.saturating_add(ms);
            crate::simclock::advance_ms(ms);
            advance_wall_ms(ms);
            w.ctr.inc(C::stalls_fired);
            if ms >= 1_000 {
                w.ctr.inc(C::stalls_fired_of_a_second_or_more);
            }
            w.ctr.add(C::stalled_simulated_seconds, ms / 1_000);
            w.log.byte(b's');
            w.log.u64(pos as u64);
            w.log.u64(ms);
        }
        // 2. EINTR
        if a.eintr_i < a.plan.eintr_at.len() && pos >= a.plan.eintr_at[a.eintr_i].min(len) {
            a.eintr_i += 1;
            a.fired.eintr += 1;
            w.ctr.inc(C::eintr_fired);
            if a.reads == 1 {
                w.ctr.inc(C::eintr_on_first_read);
            }
            if pos >= len {
                w.ctr.inc(C::eintr_before_eof_read);
            }
            if a.last_was_eintr_at == Some(pos) {
                w.ctr.inc(C::eintr_burst_fired);
            }
            a.last_was_eintr_at = Some(pos);
            w.log.byte(b'i');
            w.log.u64(pos as u64);
            return Err(io::ErrorKind::Interrupted.into());
        }
        a.last_was_eintr_at = None;
        // 3. hard fault
        if a.hard_i < a.plan.hard.len() && pos >= a.plan.hard[a.hard_i].offset.min(len) {
            let h = a.plan.hard[a.hard_i].clone();
            a.hard_i += 1;
            if h.persistent {
                a.persistent = Some(h.kind);
                w.ctr.inc(C::hard_persistent_fired);
            }
            let class = ctx.index[self.image].classify(bytes, pos);
            let line = ctx.index[self.image].line_of(pos.min(len.saturating_sub(1)));
            a.fired.hard.push((pos, h.kind, class, line, h.persistent));
            w.ctr.inc(C::hard_fired);
            if pos >= len {
                w.ctr.inc(C::hard_at_eof_fired);
            }
            w.ctr.hard_by_class[offclass_ix(class)] += 1;
            w.ctr.hard_by_kind[h.kind as usize] += 1;
            if self.image == 0 && pos <= len {
                w.v0_offsets_faulted[pos / 64] |= 1u64 << (pos % 64);
            }
            w.log.byte(b'h');
            w.log.u64(pos as u64);
            w.log.byte(h.kind as u8);
            return Err(h.kind.to_error());
        }
        // 4. end of file
        if pos >= len {
            w.log.byte(b'e');
            return Ok(0);
        }
        // 5. deliver, never across the next pending event
        let avail = buf.len().min(len - pos);
        let mut n = avail;
        if !a.plan.chunks.is_empty() {
            let c = a.plan.chunks[a.chunk_i % a.plan.chunks.len()].max(1);
            a.chunk_i += 1;
            n = n.min(c);
        }
        if let Some(&off) = a.plan.eintr_at.get(a.eintr_i) {
            let off = off.min(len);
            if off > pos {
                n = n.min(off - pos);
            }
        }
        if let Some(h) = a.plan.hard.get(a.hard_i) {
            let off = h.offset.min(len);
            if off > pos {
                n = n.min(off - pos);
            }
        }
        if let (Some((off, _)), false) = (a.plan.replace_at, a.replace_done) {
            let off = off.min(len);
            if off > pos {
                n = n.min(off - pos);
            }
        }
        if let Some(&(off, _)) = a.plan.stalls.get(a.stall_i) {
            let off = off.min(len);
            if off > pos {
                n = n.min(off - pos);
            }
        }
        buf[..n].copy_from_slice(&bytes[pos..pos + n]);
        self.pos += n;
        w.ctr.add(C::bytes_delivered, n as u64);
        if n < avail {
            a.fired.short_reads += 1;
            w.ctr.inc(C::reads_short);
            if n == 1 {
                w.ctr.inc(C::reads_one_byte);
            }
            let end = pos + n;
            if end < len {
                let b = bytes[end];
                if (0x80..0xC0).contains(&b) {
                    w.ctr.inc(C::reads_split_multibyte_char);
                }
                if b == b'\n' && bytes[end - 1] == b'\r' {
                    w.ctr.inc(C::reads_split_crlf);
                }
                match ctx.index[self.image].classify(bytes, end) {
                    OffClass::TsDigits | OffClass::ColGap | OffClass::DatDigits => {
                        w.ctr.inc(C::reads_split_inside_data_line)
                    }
                    _ => {}
                }
            }
        }
        w.log.byte(b'd');
        w.log.u64(pos as u64);
        w.log.u64(n as u64);
        Ok(n)
    }
}

// ---------------------------------------------------------------------------------------------
// Executor.

#[derive(Clone, Debug, PartialEq, Eq, serde::Serialize, serde::Deserialize)]
pub struct Violation {
    pub oracle: String,
    pub op_index: usize,
    pub message: String,
}

#[derive(Clone, Debug)]
pub struct RunResult {
    pub violation: Option<Violation>,
    pub log_hash: u64,
    pub signature: u64,
    pub nontrivial: bool,
    pub ok_load_checked: bool,
    /// Times the cooperative scheduler had to take the turn away from a blocked thread; such a
    /// run's interleaving depends on timing and is excluded from determinism comparisons.
    pub steals: u64,
    pub trace: Vec<String>, // filled only when tracing
}

struct Held {
    provider: LeapSecondsFile,
    image: usize, // the image whose table it was verified against
}

pub struct Sim {
    world: Rc<RefCell<World>>,
    ctx: Arc<PoolCtx>,
    /// Real-disk mirrors handed to the client threads of a `Concurrent` operation.
    pub thread_disks: Vec<RealDisk>,
    pub bypass: bool,
    pub trace: bool,
    pub probe_stats: ProbeStats,
}

thread_local! {
    static LAST_PANIC: RefCell<String> = const { RefCell::new(String::new()) };
}

pub fn install_quiet_panic_hook() {
    std::panic::set_hook(Box::new(|info| {
        let msg = if let Some(s) = info.payload().downcast_ref::<&str>() {
            s.to_string()
        } else if let Some(s) = info.payload().downcast_ref::<String>() {
            s.clone()
        } else if info.payload().downcast_ref::<BudgetExceeded>().is_some() {
            "read budget exceeded".to_string()
        } else if let Some(h) = info.payload().downcast_ref::<HarnessError>() {
            format!("harness error: {}", h.0)
        } else {
            "non-string panic payload".to_string()
        };
        let loc = info
            .location()
            .map(|l| format!("{}:{}", l.file(), l.line()))
            .unwrap_or_default();
        LAST_PANIC.with(|p| *p.borrow_mut() = format!("{msg} at {loc}"));
        if loc.contains("/sim/src/") || loc.starts_with("src/") {
            // a panic in the harness itself is never silent
            eprintln!("harness panic: {msg} at {loc}");
        }
    }));
}

/// Sets this thread's simulated wall clock (the seam behind `Epoch::now`).
pub fn set_clock(unix_s: Option<u64>) {
    WALL_MS.with(|c| c.set(unix_s.map(|s| s as u128 * 1_000)));
    verif_seam::set_now(Some(unix_s.map(std::time::Duration::from_secs)));
}

thread_local! {
    static WALL_MS: std::cell::Cell<Option<u128>> = const { std::cell::Cell::new(None) };
}

/// Simulated time passes (a stalled read): the wall clock moves with the monotonic one.
fn advance_wall_ms(ms: u64) {
    WALL_MS.with(|c| {
        if let Some(now) = c.get() {
            let then = now + ms as u128;
            c.set(Some(then));
            verif_seam::set_now(Some(Some(std::time::Duration::from_millis(then.min(u64::MAX as u128) as u64))));
        }
    });
}

/// Does `Epoch::now()` read the simulated clock? (A tree that reaches the system clock some other
/// way cannot be given a simulated one; reported, never judged.)
pub fn clock_seam_works() -> bool {
    set_clock(Some(1_000_000_000));
    let a = hifitime::Epoch::now().ok().map(|e| e.to_unix_seconds());
    set_clock(Some(2_000_000_123));
    let b = hifitime::Epoch::now().ok().map(|e| e.to_unix_seconds());
    set_clock(None);
    let c = hifitime::Epoch::now().is_err();
    a == Some(1_000_000_000.0) && b == Some(2_000_000_123.0) && c
}

fn take_last_panic() -> String {
    LAST_PANIC.with(|p| std::mem::take(&mut *p.borrow_mut()))
}

impl Sim {
    /// Creates the world for this thread and installs the opener on it.
    pub fn new(ctx: Arc<PoolCtx>, real: Option<RealDisk>) -> Sim {
        let sim_path = real
            .as_ref()
            .map(|r| r.path.clone())
            .unwrap_or_else(|| PathBuf::from("/simdisk/leap-seconds.list"));
        let v0_len = ctx.images[0].len();
        let world = Rc::new(RefCell::new(World {
            ctx: ctx.clone(),
            current: 0,
            deny: None,
            armed: None,
            log: Fnv::default(),
            ctr: Counters::default(),
            real,
            sim_path,
            interleavings: BTreeSet::new(),
            v0_offsets_faulted: vec![0; v0_len / 64 + 1],
            unarmed_opens: 0,
            sched: None,
            shared: None,
            cwd: None,
        }));
        let w2 = world.clone();
        verif_seam::set_opener(Some(Box::new(move |p: &Path| {
            let _harness = crate::simclock::enter_harness();
            let me = w2.clone();
            // a seam point is a yield point of the concurrent stratum
            let sched = w2.borrow().sched.clone();
            if let Some((s, id)) = sched {
                s.yield_point(id);
            }
            let mut g = w2.borrow_mut();
            g.open(p, &me)
        })));
        Sim {
            world,
            ctx,
            thread_disks: Vec::new(),
            bypass: false,
            trace: false,
            probe_stats: ProbeStats::default(),
        }
    }

    pub fn path(&self) -> PathBuf {
        self.world.borrow().sim_path.clone()
    }

    /// Gives the next run its own path (see `RealDisk::begin_run`).
    pub fn begin_run(&mut self, tag: u64) {
        self.begin_run_with(tag, 0)
    }

    pub fn begin_run_with(&mut self, tag: u64, stat_lies: u8) {
        if self.world.borrow().shared.is_some() {
            return; // the path belongs to the parent operation
        }
        let bypass = self.bypass;
        let n_pool = self.ctx.images.len();
        let mut w = self.world.borrow_mut();
        let w = &mut *w;
        match w.real.as_mut() {
            Some(r) => {
                r.begin_run(tag);
                // a loader that reads the real file must find the real content there
                r.stat_lies = if bypass { 0 } else { stat_lies };
                r.n_pool = n_pool;
                w.sim_path = r.path.clone();
            }
            None => w.sim_path = PathBuf::from(format!("/simdisk/leap-seconds.{tag}.list")),
        }
    }

    /// Calibration: does `from_path` reach the file through the seam at all?
    pub fn calibrate(&mut self) -> Result<(), String> {
        {
            let mut w = self.world.borrow_mut();
            w.install(0);
            w.deny = None;
            w.armed = None;
            w.unarmed_opens = 0;
        }
        let path = self.path();
        let r = catch_unwind(AssertUnwindSafe(|| LeapSecondsFile::from_path(&path)));
        let opens = self.world.borrow().unarmed_opens;
        self.bypass = opens == 0;
        match r {
            Ok(Ok(_)) => Ok(()),
            Ok(Err(e)) => Err(format!("fault-free load of the shipped list failed: {e}")),
            Err(_) => Err(format!(
                "fault-free load of the shipped list panicked: {}",
                take_last_panic()
            )),
        }
    }

    pub fn counters(&self) -> Counters {
        self.world.borrow().ctr.clone()
    }
    pub fn set_sched(&mut self, s: Arc<Scheduler>, id: usize) {
        self.world.borrow_mut().sched = Some((s, id));
    }
    pub fn set_shared(&mut self, sh: Arc<SharedDisk>) {
        let mut w = self.world.borrow_mut();
        w.sim_path = sh.path.clone();
        w.shared = Some(sh);
    }
    pub fn take_real(&mut self) -> Option<RealDisk> {
        self.world.borrow_mut().real.take()
    }
    pub fn worker_dir(&self) -> Option<PathBuf> {
        self.world.borrow().real.as_ref().map(|r| r.path.parent().unwrap().to_path_buf())
    }
    pub fn pool_dir(&self) -> Option<PathBuf> {
        self.world.borrow().real.as_ref().map(|r| r.pool_dir.clone())
    }
    pub fn interleavings(&self) -> BTreeSet<(u32, u32, u32)> {
        self.world.borrow().interleavings.clone()
    }
    pub fn v0_offsets_faulted(&self) -> Vec<u64> {
        self.world.borrow().v0_offsets_faulted.clone()
    }

    pub fn execute(&mut self, sc: &Scenario) -> RunResult {
        let ctx = self.ctx.clone();
        let mut trace: Vec<String> = Vec::new();
        self.begin_run_with(sc.seed, sc.stat_lies);
        set_clock(sc.clock);
        let mut clock_now = sc.clock;
        {
            let mut w = self.world.borrow_mut();
            w.log = Fnv::default();
            w.log.u64(sc.seed);
            w.deny = None;
            w.armed = None;
            if w.shared.is_none() {
                w.install(sc.initial);
            }
            w.ctr.inc(C::runs);
            if sc.clock.is_none() {
                w.ctr.inc(C::runs_clock_before_1970);
            }
            w.log.u64(sc.clock.map(|u| u + 1).unwrap_or(0));
            match sc.stat_lies {
                1 => w.ctr.inc(C::runs_stat_reports_empty),
                2 => w.ctr.inc(C::runs_stat_reports_other_size),
                _ => {}
            }
            if sc.stratum != "thread" {
                let n_loads = sc.ops.iter().filter(|o| matches!(o, Op::Load { .. })).count() as u64;
                if n_loads > w.ctr.get(C::max_loads_in_one_run) {
                    w.ctr.v[C::max_loads_in_one_run as usize] = n_loads;
                }
                if sc.ops.len() as u64 > w.ctr.get(C::max_ops_in_one_run) {
                    w.ctr.v[C::max_ops_in_one_run as usize] = sc.ops.len() as u64;
                }
            }
            if sc.stratum.starts_with("bytesweep") {
                w.ctr.inc(C::runs_bytesweep);
            } else if sc.stratum == "quiet" {
                w.ctr.inc(C::runs_quiet);
            } else if sc.stratum == "transparent" {
                w.ctr.inc(C::runs_transparent);
            } else if sc.stratum == "concurrent" {
                w.ctr.inc(C::runs_concurrent);
            } else if sc.stratum == "longhistory" {
                w.ctr.inc(C::runs_longhistory);
            } else if sc.stratum == "marathon" {
                w.ctr.inc(C::runs_marathon);
            } else if sc.stratum == "thread" {
                w.ctr.v[C::runs as usize] -= 1; // a client thread of a Concurrent op, not a run
            } else {
                w.ctr.inc(C::runs_mixed);
            }
        }
        let mut path = self.path();
        // Relative runs: the process moves into the file's directory and the clients name the file
        // by its bare name; a sibling directory holds the decoy under the same name (a real file
        // too, for loaders that go round the seam).
        let mut _cwd_guard: Option<CwdGuard> = None;
        self.world.borrow_mut().cwd = None;
        if sc.relative && self.world.borrow().real.is_some() && self.world.borrow().shared.is_none() {
            let lock = CWD_LOCK.lock().unwrap_or_else(|e| e.into_inner());
            let back_to = std::env::current_dir()
                .unwrap_or_else(|e| std::panic::panic_any(HarnessError(format!("current_dir: {e}"))));
            let home = path.parent().unwrap().to_path_buf();
            let elsewhere = home.join("elsewhere");
            let name = path.file_name().unwrap().to_os_string();
            let decoy = sc.decoy % ctx.images.len();
            // Every other relative run, the path the clients know is the head of a CHAIN of links
            // that crosses into another directory and continues there with a relative target:
            //   home/<name> -> chain/<name>;  home/chain/<name> -> target.<tag>
            // the updater's file is home/chain/target.<tag>, and a stale file of that last name
            // (the decoy again) lies beside the first link, where a link follower that resolves
            // every relative target against the directory it started in ends up.
            let chain = sc.seed % 2 == 1;
            let target_name = {
                let mut t = std::ffi::OsString::from("target.");
                t.push(&name);
                t
            };
            let mut links = vec![(home.join("link"), elsewhere.join("deep"))];
            let mut decoys = vec![elsewhere.join(&name)];
            let mut litter = vec![elsewhere.join(&name)];
            let mut main_canon = path.clone();
            if chain {
                links.push((home.join(&name), Path::new("chain").join(&name)));
                links.push((home.join("chain").join(&name), PathBuf::from(&target_name)));
                main_canon = home.join("chain").join(&target_name);
                decoys.push(home.join(&target_name));
                litter.push(home.join(&name));
                litter.push(home.join("chain").join(&name));
                litter.push(home.join(&target_name));
                litter.push(main_canon.clone());
            }
            let setup = (|| -> io::Result<()> {
                std::fs::create_dir_all(elsewhere.join("deep"))?;
                std::fs::create_dir_all(elsewhere.join("x"))?;
                std::fs::create_dir_all(home.join("sub"))?;
                std::fs::create_dir_all(home.join("~x"))?;
                std::fs::create_dir_all(home.join("chain"))?;
                if std::fs::symlink_metadata(home.join("link")).is_err() {
                    std::os::unix::fs::symlink(elsewhere.join("deep"), home.join("link"))?;
                }
                let pool_dir = self.world.borrow().real.as_ref().unwrap().pool_dir.clone();
                let decoy_file = RealDisk::pool_file(&pool_dir, decoy);
                let _ = std::fs::remove_file(elsewhere.join(&name));
                std::os::unix::fs::symlink(&decoy_file, elsewhere.join(&name))?;
                if chain {
                    // move the updater's file to the end of the chain and lay the links
                    let mut w = self.world.borrow_mut();
                    let cur = w.cur();
                    let r = w.real.as_mut().unwrap();
                    let _ = std::fs::remove_file(&r.path);
                    r.path = main_canon.clone();
                    r.current = None;
                    r.install(cur);
                    std::os::unix::fs::symlink(Path::new("chain").join(&name), home.join(&name))?;
                    std::os::unix::fs::symlink(&target_name, home.join("chain").join(&name))?;
                    std::os::unix::fs::symlink(&decoy_file, home.join(&target_name))?;
                }
                std::env::set_current_dir(&home)
            })();
            if let Err(e) = setup {
                std::panic::panic_any(HarnessError(format!("setting up the relative-path world in {}: {e}", home.display())));
            }
            // The environment points at the other directory: nothing in it names the file.
            let mut env_before = Vec::new();
            for var in ["HOME", "TZDIR", "TMPDIR", "PWD", "OLDPWD", "XDG_DATA_HOME", "XDG_CONFIG_HOME", "XDG_CACHE_HOME", "USERPROFILE"] {
                env_before.push((var, std::env::var_os(var)));
                std::env::set_var(var, &elsewhere);
            }
            _cwd_guard = Some(CwdGuard { back_to, _lock: lock });
            let mut w = self.world.borrow_mut();
            w.cwd = Some(CwdState { home, elsewhere, away: false, decoy, links, main_canon, decoys, litter, env_before });
            w.ctr.inc(C::runs_relative_path);
            if chain {
                w.ctr.inc(C::runs_link_chain);
            }
            w.log.byte(b'~');
            path = PathBuf::from(name);
        }
        let mut clients: Vec<Option<Held>> = (0..sc.n_clients.max(1)).map(|_| None).collect();
        // Every other run HOARDS: a provider that a client replaces or loses is not dropped but
        // kept alive until the end of the run (a service with a provider per tenant keeps
        // hundreds), and all of them are compared with their files once more at the end. The
        // other runs drop providers as they go (what a dropped provider leaves behind matters
        // too: seeded change M213).
        let hoarding = sc.seed & 1 == 1;
        let mut hoard: Vec<Held> = Vec::new();
        const HOARD_MAX: usize = 2048;
        let mut sig = Fnv::default();
        sig.bytes(ctx.images[sc.initial].class.as_bytes());
        let mut any_fault_or_race = false;
        let mut any_ok_load_checked = false;
        let mut run_steals = 0u64;
        let mut violation: Option<Violation> = None;

        for (oi, op) in sc.ops.iter().enumerate() {
            let is_tail = matches!(op, Op::Load { must_succeed: true, .. });
            self.world.borrow_mut().ctr.inc(C::ops);
            self.world.borrow_mut().log.byte(op.kind_char() as u8);
            sig.byte(op.kind_char() as u8);
            match op {
                Op::Replace { image } => {
                    let mut w = self.world.borrow_mut();
                    w.ctr.inc(C::replace_between_ops);
                    w.install(*image);
                    sig.bytes(ctx.images[*image].class.as_bytes());
                    if self.trace {
                        trace.push(format!("op{oi} Replace -> {}", ctx.images[*image].name));
                    }
                }
                Op::Deny { kind } => {
                    let mut w = self.world.borrow_mut();
                    w.ctr.inc(C::deny_ops);
                    if !self.bypass {
                        w.deny = Some(*kind);
                    }
                    if self.trace {
                        trace.push(format!("op{oi} Deny {kind:?}"));
                    }
                }
                Op::Allow => {
                    let mut w = self.world.borrow_mut();
                    w.ctr.inc(C::allow_ops);
                    w.deny = None;
                    if self.trace {
                        trace.push(format!("op{oi} Allow"));
                    }
                }
                Op::SetClock { unix_s } => {
                    set_clock(*unix_s);
                    clock_now = *unix_s;
                    let mut w = self.world.borrow_mut();
                    w.ctr.inc(C::clock_jumps);
                    w.log.u64(unix_s.map(|u| u + 1).unwrap_or(0));
                    if self.trace {
                        trace.push(format!("op{oi} SetClock -> {unix_s:?} s past the UNIX epoch"));
                    }
                }
                Op::Pause { ms } => {
                    crate::simclock::advance_ms(*ms);
                    advance_wall_ms(*ms);
                    if let Some(u) = clock_now.as_mut() {
                        *u += *ms / 1_000;
                    }
                    let mut w = self.world.borrow_mut();
                    w.ctr.inc(C::pause_ops);
                    w.ctr.add(C::paused_simulated_seconds, *ms / 1_000);
                    w.log.byte(b'p');
                    w.log.u64(*ms);
                    if self.trace {
                        trace.push(format!("op{oi} Pause: {ms} ms of simulated time pass"));
                    }
                }
                Op::Chdir { away } => {
                    let mut w = self.world.borrow_mut();
                    if let Some(c) = w.cwd.as_mut() {
                        c.away = *away;
                        let dir = if *away { c.elsewhere.clone() } else { c.home.clone() };
                        if let Err(e) = std::env::set_current_dir(&dir) {
                            drop(w);
                            std::panic::panic_any(HarnessError(format!("chdir {}: {e}", dir.display())));
                        }
                        w.ctr.inc(C::chdir_ops);
                        w.log.byte(*away as u8);
                    }
                    if self.trace {
                        trace.push(format!(
                            "op{oi} Chdir {}",
                            if *away { "to the other directory (same file name, another file)" } else { "back home" }
                        ));
                    }
                }
                Op::Restart { client } => {
                    let c = *client % clients.len();
                    let mut w = self.world.borrow_mut();
                    w.ctr.inc(C::restart_ops);
                    if let Some(old) = clients[c].take() {
                        w.ctr.inc(C::restart_dropped_provider);
                        if hoarding && hoard.len() < HOARD_MAX {
                            hoard.push(old);
                        }
                    }
                    if self.trace {
                        trace.push(format!("op{oi} Restart client {c}"));
                    }
                }
                Op::Concurrent { threads, sched_seed, switch_den, same_path } => {
                    if self.bypass {
                        continue;
                    }
                    let n = threads.len();
                    // one real-disk mirror per client thread, created once per worker
                    while self.thread_disks.len() < n {
                        let j = self.thread_disks.len();
                        match (self.worker_dir(), self.pool_dir()) {
                            (Some(d), Some(p)) => match RealDisk::new(&d.join(format!("t{j}")), &p) {
                                Ok(rd) => self.thread_disks.push(rd),
                                Err(e) => std::panic::panic_any(e),
                            },
                            _ => break,
                        }
                    }
                    let sched = Arc::new(Scheduler::new(n, *sched_seed, *switch_den));
                    let mut disks: Vec<Option<RealDisk>> = (0..n).map(|_| self.thread_disks.pop()).collect();
                    // Same path for everybody: the parent's own mirror becomes the shared disk.
                    let shared: Option<Arc<SharedDisk>> = if *same_path {
                        let mut rd = self.take_real();
                        let path = match rd.as_mut() {
                            Some(r) => {
                                r.begin_run(crate::prng::mix(sc.seed, 777));
                                r.stat_lies = 0;
                                r.path.clone()
                            }
                            None => PathBuf::from(format!("/simdisk/shared.{}.list", sc.seed)),
                        };
                        let sh = Arc::new(SharedDisk {
                            generation: std::sync::atomic::AtomicU64::new(0),
                            current: std::sync::atomic::AtomicUsize::new(threads[0].image),
                            real: std::sync::Mutex::new(rd),
                            path,
                        });
                        sh.install(threads[0].image);
                        self.world.borrow_mut().ctr.inc(C::conc_same_path_ops);
                        Some(sh)
                    } else {
                        None
                    };
                    let run_seed = sc.seed;
                    let mono_offset = crate::simclock::offset_ns();
                    type Out = (std::thread::Result<RunResult>, Counters, Option<RealDisk>);
                    let outs: Vec<Out> = std::thread::scope(|s| {
                        let mut hs = Vec::new();
                        for (j, t) in threads.iter().enumerate() {
                            let ctx = ctx.clone();
                            let sched = sched.clone();
                            let disk = disks[j].take();
                            let trace_on = self.trace;
                            let shared = shared.clone();
                            hs.push(s.spawn(move || {
                                let mut sim = Sim::new(ctx, disk);
                                sim.trace = trace_on;
                                sim.set_sched(sched.clone(), j);
                                set_clock(clock_now);
                                crate::simclock::set_offset_ns(mono_offset);
                                if let Some(sh) = shared {
                                    sim.set_shared(sh);
                                }
                                let tsc = Scenario {
                                    seed: crate::prng::mix(run_seed, 1000 + j as u64),
                                    stratum: "thread".into(),
                                    n_clients: 1,
                                    initial: t.image,
                                    stat_lies: 0,
                        relative: false,
                        decoy: 0,
                                    clock: clock_now,
                                    ops: vec![
                                        Op::Load {
                                            client: 0,
                                            plan: t.plan.clone(),
                                            must_succeed: false,
                                            spelling: 0,
                                        },
                                        Op::Query {
                                            client: 0,
                                            probe_seed: t.probe_seed,
                                            full: false,
                                        },
                                    ],
                                };
                                let r = {
                                    let _fin = FinishGuard(&sched, j);
                                    sched.start(j);
                                    catch_unwind(AssertUnwindSafe(|| sim.execute(&tsc)))
                                };
                                (r, sim.counters(), sim.take_real())
                            }));
                        }
                        hs.into_iter().map(|h| h.join().expect("client thread wrapper panicked")).collect()
                    });
                    let st = sched.stats();
                    if let Some(sh) = shared {
                        // all children are gone: the mirror goes back to this world
                        let now = sh.get();
                        match Arc::try_unwrap(sh) {
                            Ok(sd) => {
                                let rd = sd.real.into_inner().unwrap_or_else(|e| e.into_inner());
                                let mut w = self.world.borrow_mut();
                                w.current = now;
                                if let Some(r) = rd {
                                    w.sim_path = r.path.clone();
                                    w.real = Some(r);
                                }
                            }
                            Err(_) => std::panic::panic_any(HarnessError(
                                "shared disk still referenced after the client threads ended".into(),
                            )),
                        }
                    }
                    path = self.path(); // a same-path operation renames this world's file
                    let mut w = self.world.borrow_mut();
                    w.ctr.add(C::conc_threads, n as u64);
                    w.ctr.add(C::conc_yield_points, st.yields);
                    w.ctr.add(C::conc_switches, st.switches);
                    w.ctr.add(C::conc_steals, st.steals);
                    run_steals += st.steals;
                    if st.switches >= 2 {
                        w.ctr.inc(C::conc_loads_interleaved);
                        any_fault_or_race = true;
                    }
                    w.log.u64(st.trace_hash);
                    sig.u64(n as u64);
                    sig.u64(st.switches.min(8));
                    for (j, (r, ctr, disk)) in outs.into_iter().enumerate() {
                        if let Some(d) = disk {
                            self.thread_disks.push(d);
                        }
                        w.ctr.merge(&ctr);
                        match r {
                            Ok(rr) => {
                                w.log.u64(rr.log_hash);
                                sig.u64(rr.signature);
                                if rr.ok_load_checked {
                                    any_ok_load_checked = true;
                                }
                                if self.trace {
                                    for l in rr.trace {
                                        trace.push(format!("op{oi} thread {j} ({}): {l}", ctx.images[threads[j].image].name));
                                    }
                                }
                                if let (Some(v), None) = (rr.violation, &violation) {
                                    violation = Some(Violation {
                                        oracle: v.oracle,
                                        op_index: oi,
                                        message: format!(
                                            "[concurrent loads, thread {j} of {n}, image {}, {} context switches] {}",
                                            ctx.images[threads[j].image].name, st.switches, v.message
                                        ),
                                    });
                                }
                            }
                            Err(p) => {
                                if let Some(h) = p.downcast_ref::<HarnessError>() {
                                    let m = h.0.clone();
                                    drop(w);
                                    std::panic::panic_any(HarnessError(m));
                                }
                                drop(w);
                                std::panic::panic_any(HarnessError(format!(
                                    "client thread {j} of a concurrent operation panicked outside the code under test: {}",
                                    take_last_panic()
                                )));
                            }
                        }
                    }
                    if self.trace {
                        trace.push(format!(
                            "op{oi} Concurrent: {n} threads, {} yield points, {} switches, {} steals",
                            st.yields, st.switches, st.steals
                        ));
                    }
                }
                Op::Load { client, plan, must_succeed, spelling } => {
                    let c = *client % clients.len();
                    // How the client spells the path, and which file that spelling names.
                    let (path, named_decoy) = {
                        let w = self.world.borrow();
                        match &w.cwd {
                            None => (path.clone(), false),
                            Some(cw) => {
                                let name = w.sim_path.file_name().unwrap();
                                let sp = if cw.away && matches!(*spelling, 2 | 3 | 6) { 0 } else { *spelling };
                                let spelled = match sp {
                                    1 => Path::new(".").join(name),
                                    2 => Path::new("sub").join("..").join(name),
                                    3 => Path::new("link").join("..").join(name),
                                    4 => cw.home.join(name),
                                    5 => cw.home.join("link").join("..").join(name),
                                    6 => Path::new("~x").join("..").join(name),
                                    _ => PathBuf::from(name),
                                };
                                // which file that spelling names, here and now
                                let named = cw.classify(&spelled);
                                if named == Named::Other {
                                    std::panic::panic_any(HarnessError(format!(
                                        "the spelling {} names no file of the simulated world",
                                        spelled.display()
                                    )));
                                }
                                (spelled, named == Named::Decoy)
                            }
                        }
                    };
                    let path = &path;
                    let plan = if self.bypass {
                        Plan::default()
                    } else if *must_succeed {
                        // Faults have stopped: only transparent events remain.
                        self.world.borrow_mut().deny = None;
                        Plan {
                            chunks: plan.chunks.clone(),
                            ..Plan::default()
                        }
                    } else {
                        plan.clone()
                    };
                    let (image_at_start, budget) = {
                        let mut w = self.world.borrow_mut();
                        let max_len = ctx.images.iter().map(|i| i.len()).max().unwrap_or(0);
                        // Generous on purpose: a loader may legitimately make several complete
                        // passes (retry by re-opening, read twice to validate). Only a loader
                        // that makes no progress at all exceeds it.
                        let budget = 8 * max_len as u64 + 64 * plan.n_events() as u64 + 1024;
                        w.ctr.inc(C::loads);
                        w.ctr.add(C::eintr_planned, plan.eintr_at.len() as u64);
                        w.ctr.add(C::hard_planned, plan.hard.len() as u64);
                        let cur_len = ctx.images[w.cur()].len();
                        w.ctr.add(
                            C::hard_at_eof_planned,
                            plan.hard.iter().filter(|h| h.offset >= cur_len).count() as u64,
                        );
                        w.ctr.add(C::open_fail_planned, plan.open_fail.is_some() as u64);
                        w.ctr.add(C::replace_mid_planned, plan.replace_at.is_some() as u64);
                        w.ctr.add(C::one_shot_planned, plan.one_shot as u64);
                        w.ctr.add(C::stalls_planned, plan.stalls.len() as u64);
                        if w.deny.is_some() {
                            w.ctr.inc(C::load_while_denied);
                        }
                        w.armed = Some(Armed {
                            plan,
                            chunk_i: 0,
                            eintr_i: 0,
                            hard_i: 0,
                            stall_i: 0,
                            open_fail_done: false,
                            replace_done: false,
                            replace_before_open_done: false,
                            persistent: None,
                            opens: 0,
                            bound: Vec::new(),
                            named_decoy,
                            bound_other: Vec::new(),
                            reads: 0,
                            budget,
                            budget_hit: false,
                            fired: Fired::default(),
                            last_was_eintr_at: None,
                        });
                        (w.cur(), budget)
                    };
                    let gen_start = self.world.borrow().shared.as_ref().map(|s| s.generation());
                    let r = {
                        let _loader = crate::simclock::enter_loader();
                        let _ = crate::simclock::take_mono_reads();
                        catch_unwind(AssertUnwindSafe(|| LeapSecondsFile::from_path(path)))
                    };
                    let mono_reads = crate::simclock::take_mono_reads();
                    let (a, image_at_end) = {
                        let mut w = self.world.borrow_mut();
                        let a = w.armed.take().expect("armed plan vanished");
                        if a.reads > w.ctr.get(C::max_reads_in_one_load) {
                            w.ctr.v[C::max_reads_in_one_load as usize] = a.reads;
                            w.ctr.v[C::budget_of_that_load as usize] = budget;
                        }
                        (a, w.cur())
                    };
                    let fired = &a.fired;
                    if fired.any_error_like() || fired.replace.is_some() {
                        any_fault_or_race = true;
                    }
                    // On a shared path another thread's plan may have replaced the file meanwhile.
                    let changed_by_others =
                        gen_start != self.world.borrow().shared.as_ref().map(|s| s.generation());
                    sig.u64(fired.eintr.min(3) as u64);
                    sig.u64(fired.hard.len() as u64);
                    if let Some(h) = fired.hard.first() {
                        sig.u64(h.3 as u64);
                        sig.byte(offclass_ix(h.2) as u8);
                        sig.byte(h.1 as u8);
                    }
                    sig.byte(fired.open_fail as u8);
                    sig.byte(fired.denied as u8);
                    sig.byte(fired.replace.is_some() as u8);
                    sig.byte((fired.short_reads > 0) as u8);

                    // Which tables may the result legitimately hold? That of any image an open
                    // call of this load bound to; if the loader never opened the file (a cache),
                    // the image on disk when it was called or when it returned.
                    let mut candidates: Vec<usize> = a.bound.clone();
                    if a.named_decoy {
                        // The path named the file in the other directory, which never changes.
                        let decoy = self.world.borrow().cwd.as_ref().map(|c| c.decoy).unwrap_or(0);
                        candidates = vec![decoy];
                        self.world.borrow_mut().ctr.inc(C::loads_naming_the_other_directory);
                    } else if self.bypass || candidates.is_empty() {
                        candidates.push(image_at_start);
                        candidates.push(image_at_end);
                    }
                    candidates.dedup();
                    let wrong_file = if a.bound_other.is_empty() {
                        String::new()
                    } else {
                        format!(
                            " [the loader opened {} — a file other than the one the relative path names from the directory the process is in]",
                            a.bound_other.iter().map(|&i| ctx.images[i].name.clone()).collect::<Vec<_>>().join(", ")
                        )
                    };

                    let mut w = self.world.borrow_mut();
                    let mk = |oracle: &str, m: String| Violation {
                        oracle: oracle.into(),
                        op_index: oi,
                        message: m,
                    };
                    let outcome: u8;
                    if a.budget_hit {
                        // O3: the loader is spinning.
                        w.ctr.inc(C::o3_evaluations);
                        violation = Some(mk(
                            "O3",
                            format!(
                                "from_path issued more than {budget} reads (file length {}, {} planned events): no progress",
                                ctx.images[image_at_start].len(),
                                a.plan.n_events()
                            ),
                        ));
                        outcome = 3;
                    } else {
                        w.ctr.inc(C::o3_evaluations);
                        w.ctr.add(C::monotonic_clock_reads_by_loader, mono_reads);
                        match r {
                            Ok(Ok(p)) => {
                                w.ctr.inc(C::loads_ok);
                                if fired.stalls > 0 {
                                    w.ctr.inc(C::loads_with_a_stall_ok);
                                }
                                w.ctr.inc(C::o1_evaluations);
                                outcome = 0;
                                let mut matched = None;
                                let mut first_err = String::new();
                                for &cand in &candidates {
                                    match catch_unwind(AssertUnwindSafe(|| {
                                        oracle::o1_table_equals(&p, &ctx.images[cand].table)
                                    })) {
                                        Ok(Ok(())) => {
                                            matched = Some(cand);
                                            break;
                                        }
                                        Ok(Err(m)) => {
                                            if first_err.is_empty() {
                                                first_err = format!(
                                                    "{m} (file opened: {})",
                                                    ctx.images[cand].name
                                                );
                                            }
                                        }
                                        Err(_) => {
                                            if first_err.is_empty() {
                                                first_err = format!(
                                                    "reading the provider back panicked: {}",
                                                    take_last_panic()
                                                );
                                            }
                                        }
                                    }
                                }
                                match matched {
                                    Some(img) => {
                                        any_ok_load_checked = true;
                                        if !fired.hard.is_empty() {
                                            w.ctr.inc(C::load_ok_despite_hard_fault);
                                        }
                                        if fired.eintr > 0 {
                                            w.ctr.inc(C::load_ok_despite_eintr);
                                        }
                                        if a.bound.is_empty() && !self.bypass {
                                            w.ctr.inc(C::load_ok_without_open);
                                        }
                                        if !fired.any_error_like() {
                                            if fired.short_reads > 0 || fired.replace.is_some() {
                                                w.ctr.inc(C::loads_ok_after_transparent_events);
                                            } else {
                                                w.ctr.inc(C::loads_ok_quiet);
                                            }
                                        }
                                        if is_tail {
                                            w.ctr.inc(C::tail_loads_ok);
                                        }
                                        let old = clients[c].replace(Held {
                                            provider: p,
                                            image: img,
                                        });
                                        if let (true, Some(old)) = (hoarding && hoard.len() < HOARD_MAX, old) {
                                            hoard.push(old);
                                        }
                                    }
                                    None => {
                                        violation = Some(mk(
                                            "O1",
                                            format!(
                                                "load returned Ok with a table that is not the opened file's: {first_err}{wrong_file}; injected: {}",
                                                describe_fired(fired)
                                            ),
                                        ));
                                    }
                                }
                            }
                            Ok(Err(e)) => {
                                w.ctr.inc(C::loads_err);
                                w.ctr.inc(C::o2_evaluations);
                                outcome = 1;
                                if fired.any_error_like() {
                                    w.ctr.inc(C::loads_err_after_fault);
                                } else if candidates.iter().any(|&c| !ctx.images[c].strict) {
                                    // A rendering with liberties of debatable status: refusing it
                                    // is not a wrong answer.
                                    w.ctr.inc(C::loads_refused_lenient_format);
                                } else if fired.drained_reopen {
                                    // The loader opened a read-once source a second time and found
                                    // it drained: refusing (the two reads differ) is not a wrong answer.
                                    w.ctr.inc(C::loads_refused_drained_source);
                                } else if fired.stalls > 0 {
                                    // A read stalled: a loader with a deadline that gives up
                                    // (`TimedOut`) is not answering wrongly.
                                    w.ctr.inc(C::loads_refused_after_stall);
                                } else if fired.replace.is_some() || changed_by_others || sc.stat_lies != 0 {
                                    // The file changed while it was being loaded, or `stat`
                                    // disagrees with the content: a loader that notices (reads
                                    // twice, compares sizes) and refuses is not answering wrongly.
                                    w.ctr.inc(C::loads_refused_changed_file);
                                } else {
                                    violation = Some(mk(
                                        "O2",
                                        format!(
                                            "load of a well-formed IERS-format file ({}) failed with `{e}` although no error was injected (events: {})",
                                            ctx.images[*candidates.first().unwrap_or(&image_at_start)].name,
                                            describe_fired(fired)
                                        ),
                                    ));
                                }
                            }
                            Err(_) => {
                                w.ctr.inc(C::loads_panicked);
                                w.ctr.inc(C::o2_evaluations);
                                outcome = 2;
                                let msg = take_last_panic();
                                if msg.starts_with("harness error") {
                                    drop(w);
                                    std::panic::panic_any(HarnessError(msg));
                                }
                                if !fired.any_error_like()
                                    && candidates.iter().all(|&c| ctx.images[c].strict)
                                    && fired.replace.is_none()
                                    && !fired.drained_reopen
                                    && fired.stalls == 0
                                    && !changed_by_others
                                    && sc.stat_lies == 0
                                {
                                    violation = Some(mk(
                                        "O2",
                                        format!(
                                            "load of a well-formed IERS-format file panicked ({msg}) although no error was injected (events: {})",
                                            describe_fired(fired)
                                        ),
                                    ));
                                }
                            }
                        }
                        if violation.is_none()
                            && is_tail
                            && outcome != 0
                            && candidates.iter().all(|&c| ctx.images[c].strict)
                            && sc.stat_lies == 0
                        {
                            violation = Some(mk(
                                "O3",
                                "the final fault-free load did not succeed".to_string(),
                            ));
                        }
                    }
                    sig.byte(outcome);
                    w.log.byte(outcome);
                    if self.trace {
                        trace.push(format!(
                            "op{oi} Load client {c}: reads={} opens={} bound={:?} outcome={} fired: {}",
                            a.reads,
                            a.opens,
                            a.bound.iter().map(|&i| ctx.images[i].name.clone()).collect::<Vec<_>>(),
                            ["Ok", "Err", "Panic", "Budget"][outcome as usize],
                            describe_fired(fired)
                        ));
                    }
                }
                Op::Query { client, probe_seed, full } => {
                    let c = *client % clients.len();
                    self.world.borrow_mut().ctr.inc(C::queries);
                    if let Some(h) = &clients[c] {
                        let mut stats = ProbeStats::default();
                        let mut log = Fnv::default();
                        let table = &ctx.images[h.image].table;
                        // lookups and conversions see simulated time as well
                        let _under_test = crate::simclock::enter_loader();
                        let r = catch_unwind(AssertUnwindSafe(|| {
                            if *full {
                                oracle::full_sweep(
                                    &h.provider,
                                    table,
                                    &ctx.shipped_table,
                                    &ctx.fixed_probes,
                                    &mut stats,
                                )
                            } else {
                                oracle::run_query(
                                    &h.provider,
                                    table,
                                    &ctx.shipped_table,
                                    *probe_seed,
                                    &ctx.fixed_probes,
                                    &mut stats,
                                    &mut log,
                                )
                            }
                        }));
                        let mut w = self.world.borrow_mut();
                        w.ctr.inc(C::queries_with_provider);
                        if h.image != w.cur() && ctx.images[h.image].table != ctx.images[w.cur()].table {
                            w.ctr.inc(C::queries_stale_provider);
                        }
                        w.ctr.add(C::o4_model_probes, stats.model_compared);
                        w.ctr.add(C::o4_differential_probes, stats.differential_compared);
                        w.log.u64(log.0);
                        match r {
                            Ok(Ok(())) => {}
                            Ok(Err(m)) => {
                                violation = Some(Violation {
                                    oracle: "O4".into(),
                                    op_index: oi,
                                    message: format!(
                                        "provider loaded from {}: {m}",
                                        ctx.images[h.image].name
                                    ),
                                });
                            }
                            Err(_) => {
                                violation = Some(Violation {
                                    oracle: "O4".into(),
                                    op_index: oi,
                                    message: format!(
                                        "lookup through provider loaded from {} panicked: {}",
                                        ctx.images[h.image].name,
                                        take_last_panic()
                                    ),
                                });
                            }
                        }
                        if self.trace {
                            trace.push(format!(
                                "op{oi} Query client {c}: {} model probes, {} differential",
                                stats.model_compared, stats.differential_compared
                            ));
                        }
                    } else if self.trace {
                        trace.push(format!("op{oi} Query client {c}: no provider held"));
                    }
                    // O6: conversions follow the shipped table, whatever has been loaded so far.
                    if violation.is_none() {
                        let mut st = oracle::ConvStats::default();
                        let do_full = *full
                            && clients[c]
                                .as_ref()
                                .map(|h| ctx.images[h.image].table == ctx.shipped_table)
                                .unwrap_or(false);
                        let r = catch_unwind(AssertUnwindSafe(|| {
                            if do_full {
                                oracle::conv_full_sweep(&ctx.shipped_table, &ctx.fixed_probes, ctx.known, &mut st)
                            } else {
                                oracle::conv_light(&ctx.shipped_table, *probe_seed, ctx.known, &mut st)
                            }
                        }));
                        let mut w = self.world.borrow_mut();
                        w.ctr.add(C::o6_utc_probes, st.utc_probes);
                        w.ctr.add(C::o6_zone_strings_judged, st.zone_strings_judged);
                        w.ctr.add(C::o6_tai_probes, st.tai_probes);
                        w.ctr.add(C::o6_full_sweeps, do_full as u64);
                        w.ctr.add(C::kf1_hits, st.hits.kf1);
                        w.ctr.add(C::kf2_roundtrip_hits, st.hits.kf2_roundtrip);
                        w.ctr.add(C::kf2_backstep_hits, st.hits.kf2_backstep);
                        w.ctr.add(C::kf3_backstep_hits, st.hits.kf3_backstep);
                        w.log.u64(st.utc_probes);
                        match r {
                            Ok(Ok(())) => {}
                            Ok(Err(m)) => {
                                violation = Some(Violation {
                                    oracle: "O6".into(),
                                    op_index: oi,
                                    message: m,
                                });
                            }
                            Err(_) => {
                                violation = Some(Violation {
                                    oracle: "O6".into(),
                                    op_index: oi,
                                    message: format!("UTC<->TAI conversion panicked: {}", take_last_panic()),
                                });
                            }
                        }
                    }
                }
            }
            if violation.is_some() {
                break;
            }
        }
        if hoarding {
            let alive = hoard.len() + clients.iter().filter(|c| c.is_some()).count();
            {
                let mut w = self.world.borrow_mut();
                w.ctr.inc(C::runs_hoarding);
                w.ctr.add(C::hoarded_providers_rejudged, hoard.len() as u64);
                if alive as u64 > w.ctr.get(C::max_providers_alive_in_one_run) {
                    w.ctr.v[C::max_providers_alive_in_one_run as usize] = alive as u64;
                }
            }
            if violation.is_none() {
                for (k, h) in hoard.iter().enumerate() {
                    let r = catch_unwind(AssertUnwindSafe(|| oracle::o1_table_equals(&h.provider, &ctx.images[h.image].table)));
                    let err = match r {
                        Ok(Ok(())) => continue,
                        Ok(Err(m)) => m,
                        Err(_) => format!("reading the provider back panicked: {}", take_last_panic()),
                    };
                    violation = Some(Violation {
                        oracle: "O1".into(),
                        op_index: sc.ops.len().saturating_sub(1),
                        message: format!(
                            "a provider that was right when it was loaded (from {}) and has been kept alive since, with {} others, no longer holds its file's table at the end of the run: {err} (kept provider {k} of {})",
                            ctx.images[h.image].name,
                            alive - 1,
                            hoard.len()
                        ),
                    });
                    break;
                }
            }
            // ...and asked: the same few instants through every kept provider in turn (what one
            // provider's lookup leaves behind must not answer for another: seeded change M231,
            // lookup brackets in 64 slots indexed by a provider id modulo 64)
            if violation.is_none() && hoard.len() >= 2 {
                let mut instants: Vec<i128> = vec![3_786_825_600, 2_500_000_000, 3_345_062_400];
                if let Some(&(ts, _)) = ctx.images[hoard[hoard.len() / 2].image].table.last() {
                    instants.push(ts as i128 + 5);
                }
                'outer: for &t in &instants {
                    for (k, h) in hoard.iter().enumerate() {
                        let table = &ctx.images[h.image].table;
                        let want = crate::refdata::model_answer(table, t).map(|d| d as f64);
                        let got = catch_unwind(AssertUnwindSafe(|| {
                            oracle::tai_epoch_ns(t * 1_000_000_000).leap_seconds_with(true, h.provider.clone())
                        }));
                        if !matches!(got, Ok(g) if g == want) {
                            violation = Some(Violation {
                                oracle: "O4".into(),
                                op_index: sc.ops.len().saturating_sub(1),
                                message: format!(
                                    "kept provider {k} of {} (loaded from {}): at TAI second {t} since 1900 it answers {:?}, its file's table says {want:?} (every kept provider asked in turn)",
                                    hoard.len(),
                                    ctx.images[h.image].name,
                                    got.ok().flatten()
                                ),
                            });
                            break 'outer;
                        }
                    }
                }
            }
        }
        drop(hoard);
        let nontrivial = any_fault_or_race && any_ok_load_checked;
        let ended = self.world.borrow_mut().cwd.take();
        if let Some(c) = ended {
            for (var, before) in &c.env_before {
                match before {
                    Some(v) => std::env::set_var(var, v),
                    None => std::env::remove_var(var),
                }
            }
            for p in &c.litter {
                let _ = std::fs::remove_file(p);
            }
            // the next run starts from a worker directory without a file
            if let Some(r) = self.world.borrow_mut().real.as_mut() {
                r.current = None;
            }
        }
        drop(_cwd_guard);
        let mut w = self.world.borrow_mut();
        if nontrivial {
            w.ctr.inc(C::runs_nontrivial);
        }
        if let Some(v) = &violation {
            w.log.bytes(v.oracle.as_bytes());
        }
        RunResult {
            violation,
            log_hash: w.log.0,
            signature: sig.0,
            nontrivial,
            ok_load_checked: any_ok_load_checked,
            steals: run_steals,
            trace,
        }
    }
}

impl Drop for Sim {
    fn drop(&mut self) {
        verif_seam::set_opener(None);
    }
}

pub fn describe_fired(f: &Fired) -> String {
    let mut parts = Vec::new();
    if f.open_fail {
        parts.push("open failed".to_string());
    }
    if f.denied {
        parts.push("path denied".to_string());
    }
    if f.eintr > 0 {
        parts.push(format!("{} x EINTR", f.eintr));
    }
    for (off, k, class, line, pers) in &f.hard {
        parts.push(format!(
            "{}{k:?} at byte {off} (line {}, {})",
            if *pers { "persistent " } else { "" },
            line + 1,
            OFFCLASS_NAMES[offclass_ix(*class)]
        ));
    }
    if let Some((from, to, off)) = f.replace {
        parts.push(format!("file replaced (image {from} -> {to}) at byte {off}"));
    }
    if f.short_reads > 0 {
        parts.push(format!("{} short reads", f.short_reads));
    }
    if f.drained_reopen {
        parts.push("a read-once source opened again (nothing left)".to_string());
    }
    if f.stalls > 0 {
        parts.push(format!("{} stalled read(s), {} ms of simulated time in all", f.stalls, f.stalled_ms));
    }
    if parts.is_empty() {
        "nothing".to_string()
    } else {
        parts.join(", ")
    }
}
