//! Concurrent clients of hifitime under Miri's seeded, preemptive scheduler.
//!
//! The cooperative scheduler of /verif/sim can only switch threads at seam points (the reads
//! behind `from_path`); lookups and conversions contain none. Miri interprets the program and
//! may preempt a thread at any basic block, with every scheduling decision derived from
//! `-Zmiri-seed`: one seed is one exactly repeatable fine-grained interleaving. Client threads
//! load leap-second files (through the verif_seam opener, from memory: Miri's isolation allows
//! no real I/O), look offsets up and convert UTC<->TAI, all at the same time, and every answer
//! is compared with the model table. On the unchanged tree there is no shared state and every
//! interleaving gives the same answers; the stratum exists for changes that introduce some
//! (a memo kept in two atomics, a shared buffer, an index hint).
//!
//! usage: hifitime-miri-conc <workload seed> [threads=3] [ops per thread=24]
//! A failed comparison panics with `CONC-VIOLATION ...`; Miri reports the seed.

use hifitime::leap_seconds::{LatestLeapSeconds, LeapSecondsFile};
use hifitime::{Duration, Epoch, TimeScale};
use std::io::Read;

const NS: i128 = 1_000_000_000;
const CENTURY: i128 = 3_155_760_000 * NS;

/// The 28 IERS entries as (year, month, offset); timestamps are computed from the dates here.
const IERS_DATES: [(i64, u32, u8); 28] = [
    (1972, 1, 10), (1972, 7, 11), (1973, 1, 12), (1974, 1, 13), (1975, 1, 14), (1976, 1, 15),
    (1977, 1, 16), (1978, 1, 17), (1979, 1, 18), (1980, 1, 19), (1981, 7, 20), (1982, 7, 21),
    (1983, 7, 22), (1985, 7, 23), (1988, 1, 24), (1990, 1, 25), (1991, 1, 26), (1992, 7, 27),
    (1993, 7, 28), (1994, 7, 29), (1996, 1, 30), (1997, 7, 31), (1999, 1, 32), (2006, 1, 33),
    (2009, 1, 34), (2012, 7, 35), (2015, 7, 36), (2017, 1, 37),
];

fn days_from_civil(y: i64, m: u32, d: u32) -> i64 {
    let y = if m <= 2 { y - 1 } else { y };
    let era = if y >= 0 { y } else { y - 399 } / 400;
    let yoe = y - era * 400;
    let mp = (m as i64 + 9) % 12;
    let doy = (153 * mp + 2) / 5 + d as i64 - 1;
    let doe = yoe * 365 + yoe / 4 - yoe / 100 + doy;
    era * 146_097 + doe - 719_468
}

fn ntp(y: i64, m: u32, d: u32) -> i128 {
    ((days_from_civil(y, m, d) - days_from_civil(1900, 1, 1)) * 86_400) as i128
}

fn table() -> Vec<(i128, u8)> {
    IERS_DATES.iter().map(|&(y, m, dat)| (ntp(y, m, 1), dat)).collect()
}

fn dur(ns: i128) -> Duration {
    Duration::from_parts(ns.div_euclid(CENTURY) as i16, ns.rem_euclid(CENTURY) as u64)
}

fn parts_ns(d: Duration) -> i128 {
    let (c, n) = d.to_parts();
    assert!((n as i128) < CENTURY, "CONC-VIOLATION non-canonical duration ({c}, {n})");
    c as i128 * CENTURY + n as i128
}

fn model(t: &[(i128, u8)], s: i128) -> Option<u8> {
    let mut a = None;
    for &(ts, dat) in t {
        if ts <= s {
            a = Some(dat);
        }
    }
    a
}

struct Lcg(u64);
impl Lcg {
    fn next(&mut self) -> u64 {
        self.0 = self.0.wrapping_mul(6364136223846793005).wrapping_add(1442695040888963407);
        self.0 >> 33
    }
    fn below(&mut self, n: u64) -> u64 {
        self.next() % n
    }
}

/// A reader that hands an in-memory image out in small chunks.
struct Chunked {
    data: Vec<u8>,
    pos: usize,
    chunk: usize,
    /// Give the processor away right before reporting end of file (the last seam point of a
    /// load): clients that load at the same time then enter the part of `from_path` that follows
    /// the reading — parsing, building the provider, whatever bookkeeping a change adds there —
    /// side by side instead of one after the other.
    yield_at_eof: bool,
}
impl Read for Chunked {
    fn read(&mut self, buf: &mut [u8]) -> std::io::Result<usize> {
        if self.yield_at_eof && self.pos == self.data.len() {
            std::thread::yield_now();
        }
        let n = buf.len().min(self.chunk).min(self.data.len() - self.pos);
        buf[..n].copy_from_slice(&self.data[self.pos..self.pos + n]);
        self.pos += n;
        Ok(n)
    }
}

fn render(t: &[(i128, u8)], n: usize, tag: usize) -> String {
    let mut s = format!("#\tleap seconds, rendering {tag}\n#$\t 3676924800\n#\n");
    for &(ts, dat) in &t[..n] {
        s.push_str(&format!("{ts}\t{dat}\t# entry\n"));
    }
    s.push_str("#h\t2c413af9 124e1031 f165174 ff527c6b 756ae00b\n");
    s
}

/// A per-thread object that is registered BEFORE the thread's first use of the library and whose
/// destructor — run while the thread is being torn down, after thread-locals registered later
/// have been destroyed — converts once more (a per-thread log flushed at exit does that).
struct ExitProbe {
    id: usize,
    t: Vec<(i128, u8)>,
}

impl Drop for ExitProbe {
    fn drop(&mut self) {
        for &(ts, dat) in [self.t[3], self.t[27]].iter() {
            let u = (ts + 5) * NS;
            let e = Epoch::from_duration(dur(u), TimeScale::UTC);
            let got = parts_ns(e.to_time_scale(TimeScale::TAI).duration) - u;
            let iers = e.to_time_scale(TimeScale::TAI).leap_seconds_iers();
            if got != dat as i128 * NS || iers != dat as i32 {
                eprintln!(
                    "CONC-VIOLATION client {} while its thread is being torn down: UTC->TAI at UTC {} s adds {} ns (leap_seconds_iers {}), want {} s",
                    self.id, ts + 5, got, iers, dat
                );
                std::process::exit(101);
            }
        }
    }
}

thread_local! {
    static AT_EXIT: std::cell::RefCell<Option<ExitProbe>> = const { std::cell::RefCell::new(None) };
}

fn client(id: usize, seed: u64, ops: usize, start: &std::sync::Barrier) {
    let t = table();
    // a wall clock for this thread (Miri's isolation offers none): a change that asks
    // `Epoch::now()` can then be interpreted at all
    hifitime::verif_seam::set_now(Some(Some(std::time::Duration::from_secs(1_790_380_800 + id as u64))));
    AT_EXIT.with(|p| *p.borrow_mut() = Some(ExitProbe { id, t: t.clone() }));
    let mut r = Lcg(seed ^ (id as u64 + 1).wrapping_mul(0x9E37_79B9_7F4A_7C15));
    // each client loads a different bulletin (a different prefix of the real list)
    let my_n = 28 - (id * 5) % 20;
    let text = render(&t, my_n, id);
    let chunk = 24 + 17 * id;
    hifitime::verif_seam::set_opener(Some(Box::new(move |_p| {
        Ok(Box::new(Chunked {
            data: text.clone().into_bytes(),
            pos: 0,
            chunk,
            yield_at_eof: false,
        }) as Box<dyn Read>)
    })));
    let s0 = ntp(1960, 1, 1);
    let s1 = ntp(1972, 1, 1);
    let mut provider: Option<LeapSecondsFile> = None;
    // Everybody sets up first and starts together, and each client's FIRST operation is the
    // process's first use of one of the entry points (a conversion through the built-in table, an
    // IERS-only lookup, a file load): whatever is initialised lazily, on first use, is initialised
    // while the other clients are arriving.
    start.wait();
    for k in 0..ops {
        let (ts, dat) = t[r.below(28) as usize];
        let what = if k == 0 { [2u64, 5, 0, 4, 2, 5][(seed as usize + id) % 6] } else { r.below(8) };
        match what {
            0 => {
                // load this client's bulletin and compare it with what was rendered
                let p = LeapSecondsFile::from_path("/mem/leap-seconds.list")
                    .unwrap_or_else(|e| panic!("CONC-VIOLATION client {id} op {k}: load failed: {e}"));
                let got: Vec<(i128, u8)> = p
                    .clone()
                    .map(|l| (l.timestamp_tai_s as i128, l.delta_at as u8))
                    .collect();
                assert!(
                    got == t[..my_n],
                    "CONC-VIOLATION client {id} op {k}: loaded table has {} entries / differs from the {my_n}-entry file it was loaded from",
                    got.len()
                );
                provider = Some(p);
            }
            1 => {
                if let Some(p) = &provider {
                    let s = ts + r.below(81) as i128 - 40;
                    let e = Epoch::from_duration(dur(s * NS), TimeScale::TAI);
                    let got = e.leap_seconds_with(true, p.clone());
                    let want = model(&t[..my_n], s).map(|d| d as f64);
                    assert!(got == want, "CONC-VIOLATION client {id} op {k}: file provider at TAI {s} s answers {got:?}, want {want:?}");
                }
            }
            2 | 3 => {
                // UTC -> TAI at and around an entry
                let u = (ts + r.below(5) as i128 - 2) * NS + [0i128, 1, 500_000_000, 999_999_999][r.below(4) as usize];
                let e = Epoch::from_duration(dur(u), TimeScale::UTC);
                let got = parts_ns(e.to_time_scale(TimeScale::TAI).duration) - u;
                let want = model(&t, u.div_euclid(NS)).unwrap_or(0) as i128 * NS;
                assert!(got == want, "CONC-VIOLATION client {id} op {k}: UTC->TAI at UTC {u} ns adds {got} ns, want {want} ns");
            }
            4 => {
                // round trip, on both sides of an entry (the seconds before an insertion included)
                let u = (ts + r.below(80) as i128 - 40) * NS + r.below(NS as u64) as i128;
                let e = Epoch::from_duration(dur(u), TimeScale::UTC);
                let back = parts_ns(e.to_time_scale(TimeScale::TAI).to_time_scale(TimeScale::UTC).duration);
                assert!(back == u, "CONC-VIOLATION client {id} op {k}: UTC->TAI->UTC at UTC {u} ns returns {back} ns");
            }
            5 => {
                // IERS-only lookups through the built-in table
                let s = ts + r.below(3) as i128 - 1;
                let e = Epoch::from_duration(dur(s * NS), TimeScale::TAI);
                let want = model(&t, s).map(|d| d as f64);
                let a = e.leap_seconds(true);
                let b = e.leap_seconds_with(true, LatestLeapSeconds::default());
                let i = e.leap_seconds_iers();
                assert!(
                    a == want && b == want && i == want.map(|v| v as i32).unwrap_or(0),
                    "CONC-VIOLATION client {id} op {k}: at TAI {s} s leap_seconds(true)={a:?} with(built-in)={b:?} iers={i}, want {want:?} (offset in force {dat} s from {ts})"
                );
            }
            6 => {
                // unjudged SOFA-inclusive lookup, in the SOFA span or in the ten years before it
                // (where it finds nothing at all)
                let s = s0 - 315_360_000 + r.below((s1 - s0 + 315_360_000) as u64) as i128;
                let e = Epoch::from_duration(dur(s * NS), TimeScale::TAI);
                let _ = e.leap_seconds(false);
            }
            _ => {
                // before 1972: nothing, whatever anybody asked before
                let s = s0 + r.below((s1 - s0) as u64) as i128;
                let e = Epoch::from_duration(dur(s * NS), TimeScale::TAI);
                let a = e.leap_seconds(true);
                let i = e.leap_seconds_iers();
                let u = Epoch::from_duration(dur(s * NS), TimeScale::UTC);
                let off = parts_ns(u.to_time_scale(TimeScale::TAI).duration) - s * NS;
                assert!(
                    a.is_none() && i == 0 && off == 0,
                    "CONC-VIOLATION client {id} op {k}: at {s} s (before 1972) leap_seconds(true)={a:?} iers={i} UTC->TAI adds {off} ns"
                );
            }
        }
    }
    // Load storm: in each round every client loads a small bulletin of its own that nobody has
    // loaded before, all at the same time (barrier), each file arriving in a single read — so
    // that what is concurrent is not the reading but what a loader does AFTER it (seeded change
    // M195: rows interned in a process-wide list, slot remembered under the read lock and used
    // under the write lock). Then one lookup through the fresh provider.
    for round in 0..STORM_ROUNDS {
        if round % 4 == 1 {
            // ...and now and then a client first offers a file that no loader accepts (a saved
            // error page): whatever a REFUSED load leaves behind (seeded change M212: a pool slot
            // released twice on the refusal path) is there when the others load. Not judged.
            let junk = format!("#\tnot a list\n<html>{id} {round}</html>\n2272060800\n");
            hifitime::verif_seam::set_opener(Some(Box::new(move |_p| {
                Ok(Box::new(Chunked { data: junk.clone().into_bytes(), pos: 0, chunk: usize::MAX, yield_at_eof: false }) as Box<dyn Read>)
            })));
            let _ = LeapSecondsFile::from_path("/mem/junk.list");
        }
        // A file every loader accepts (it starts in 1972 with 10 s, dates increase, offsets move
        // by one, the special comments are there — refactoring REF82 insists on all of that), yet
        // one that nobody has loaded before: the first rows of the real list plus one
        // hypothetical row at a date of this client's and this round's own.
        let k = 2 + (id + round) % 3;
        let mut mine: Vec<(i128, u8)> = t[..k].to_vec();
        mine.push((t[k - 1].0 + 86_400 * (1 + (round * 3 + id) as i128), t[k - 1].1 + 1));
        let n = mine.len();
        let mut text = String::from("#\tstorm\n#$\t 3676924800\n#@\t3896899200\n#\n");
        for &(ts, dat) in &mine {
            text.push_str(&format!("{ts}\t{dat}\t# entry\n"));
        }
        text.push_str("#h\t2c413af9 124e1031 f165174 ff527c6b 756ae00b\n");
        hifitime::verif_seam::set_opener(Some(Box::new(move |_p| {
            Ok(Box::new(Chunked {
                data: text.clone().into_bytes(),
                pos: 0,
                chunk: usize::MAX,
                yield_at_eof: true,
            }) as Box<dyn Read>)
        })));
        start.wait();
        // (a refusal is not what the storm is about: not judged)
        let Ok(p) = LeapSecondsFile::from_path("/mem/storm.list") else { continue };
        let got: Vec<(i128, u8)> = p.clone().map(|l| (l.timestamp_tai_s as i128, l.delta_at as u8)).collect();
        if got != mine {
            fail(format!("CONC-VIOLATION client {id} storm round {round}: loaded table {got:?} differs from the file it was loaded from {mine:?} (all clients loading at the same time)"));
        }
        let s = mine[n - 1].0;
        let e = Epoch::from_duration(dur(s * NS), TimeScale::TAI);
        let ans = e.leap_seconds_with(true, p);
        if ans != Some(mine[n - 1].1 as f64) {
            fail(format!("CONC-VIOLATION client {id} storm round {round}: fresh provider at TAI {s} s answers {ans:?}"));
        }
    }
    hifitime::verif_seam::set_opener(None);
}

/// The other clients are waiting at a barrier: report and end the process (a panic on this
/// thread alone would leave them there).
fn fail(msg: String) -> ! {
    eprintln!("{msg}");
    std::process::exit(101)
}

/// Rounds of the load storm at the end of every client's life (see `client`).
const STORM_ROUNDS: usize = 12;

fn main() {
    let a: Vec<String> = std::env::args().collect();
    let seed: u64 = a.get(1).and_then(|s| s.parse().ok()).unwrap_or(1);
    let threads: usize = a.get(2).and_then(|s| s.parse().ok()).unwrap_or(3);
    let ops: usize = a.get(3).and_then(|s| s.parse().ok()).unwrap_or(24);
    let start = std::sync::Arc::new(std::sync::Barrier::new(threads));
    let hs: Vec<_> = (0..threads)
        .map(|id| {
            let start = start.clone();
            std::thread::spawn(move || client(id, seed, ops, &start))
        })
        .collect();
    let mut failed = false;
    for h in hs {
        if h.join().is_err() {
            failed = true;
        }
    }
    if failed {
        std::process::exit(101);
    }
    println!("conc ok: seed {seed}, {threads} threads x {ops} ops");
}
